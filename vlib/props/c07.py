"""C07 — the terminal belongs to the foreground job while it runs, else to the shell; interactive job control.

Real interactive binary on a pseudo-terminal. Every stage of every pipeline is the helper vh-wait, which blocks until
the explorer opens its gate, so "a job finishes" is an explorer action, not a timer. ALL action sequences up to the
depth bound over {launch fg pipeline of 1/2 stages, launch bg pipeline, Ctrl-Z, Ctrl-C, fg <id>, bg <id>, external
SIGSTOP / SIGCONT / SIGKILL of a member, release the gate (normal exit), jobs, empty line, not-found command, failing
command} that are enabled in the reference model are replayed from a fresh shell, and after EVERY action the driver
waits (no sleeps) for the observable condition the model predicts: the terminal's foreground process group
(tcgetpgrp on the pty), the process group and /proc state of every helper, the parsed output of `jobs`."""
import os
import re
import signal
import time

from .. import common, ptydrv


class Model:
    """reference model of the interactive job state (pure; shared by the sequence enumerator and the driver)"""

    def __init__(self):
        self.jobs = {}        # id -> dict(n, st[list of R/T/X], bg, gate_open, pending_int[set of idx], unreported)
        self.fg = None
        self.seen = {}        # id -> member states as of the shell's last poll (what the shell has been told so far)

    def copy(self):
        m = Model()
        m.fg = self.fg
        m.seen = {k: list(v) for k, v in self.seen.items()}
        m.jobs = {k: dict(n=v['n'], st=list(v['st']), bg=v['bg'], gate_open=v['gate_open'], pending_int=set(v['pending_int']), unreported=v['unreported'])
                  for k, v in self.jobs.items()}
        return m

    def visible(self):
        """jobs a user can still act on (not yet finished)"""
        return {k: v for k, v in self.jobs.items() if not v['unreported']}

    def free_id(self):
        i = 1
        while i in self.jobs:      # a finished job keeps its id until the shell has polled
            i += 1
        return i

    def status(self, jid):
        st = [x for x in self.jobs[jid]['st'] if x != 'X']
        return 'Stopped' if st and all(x == 'T' for x in st) else 'Running'

    def enabled(self, tier):
        acts = []
        vis = self.visible()
        if tier == 'polls':
            # small alphabet for the question "does it matter WHEN the shell polled?": one background pipeline of two
            # stages, external stop / continue / kill of either member, and `jobs` (a poll)
            if not self.jobs:
                return ['B2']
            for jid in sorted(vis):
                acts += ['STOP%d.0' % jid, 'STOP%d.1' % jid, 'KILL%d.0' % jid, 'KILL%d.1' % jid, 'CONT%d.0' % jid]
            return acts + ['J']
        if self.fg is None:
            if len(vis) < 2 and len(self.jobs) < 3:
                acts += ['F1', 'F2', 'B1']
                if tier == 'thorough':
                    acts += ['B2']
            acts += ['J']
            if tier == 'thorough':
                acts += ['E', 'NF', 'FALSE']
            for jid in sorted(vis):
                acts += ['fg%d' % jid, 'REL%d' % jid, 'STOP%d.0' % jid, 'KILL%d.0' % jid]
                # `bg` of a job whose members end as soon as they are continued (gate already open, or an interrupt
                # pending on a stopped member) is not explored: whether the poll that follows `bg` in the same command
                # already sees the exit is a race between the shell and the dying process, and the job id given to
                # the next job depends on it - the statement does not fix either outcome
                if not vis[jid]['gate_open'] and not vis[jid]['pending_int']:
                    acts.append('bg%d' % jid)
                if tier == 'thorough':
                    acts += ['CONT%d.0' % jid]
                    if vis[jid]['n'] > 1:
                        acts += ['STOP%d.1' % jid, 'KILL%d.1' % jid]
        else:
            n = self.jobs[self.fg]['n']
            acts += ['^Z', '^C', 'REL%d' % self.fg, 'STOP%d.%d' % (self.fg, n - 1), 'KILL%d.0' % self.fg]
            if tier == 'thorough':
                acts += ['CONT%d.%d' % (self.fg, n - 1)]
                for jid in sorted(vis):
                    if jid != self.fg:
                        acts += ['KILL%d.0' % jid, 'STOP%d.0' % jid]
        return acts

    def _resume(self, jid):
        j = self.jobs[jid]
        for i, x in enumerate(j['st']):
            if x != 'X':
                j['st'][i] = 'X' if (j['gate_open'] or i in j['pending_int']) else 'R'
        j['pending_int'] = set()

    def apply(self, a):
        """update the model; returns the id of a newly launched job (or None)"""
        new = None
        polled = False          # does the action run a command line (after which the shell polls its jobs)?
        if a in ('F1', 'F2', 'B1', 'B2'):
            new = self.free_id()
            self.jobs[new] = dict(n=int(a[1]), st=['R'] * int(a[1]), bg=a[0] == 'B', gate_open=False, pending_int=set(), unreported=False)
            if a[0] == 'F':
                self.fg = new
            polled = a[0] == 'B'
        elif a == '^Z':
            j = self.jobs[self.fg]
            j['st'] = ['T' if x != 'X' else 'X' for x in j['st']]
        elif a == '^C':
            j = self.jobs[self.fg]
            for i, x in enumerate(j['st']):
                if x == 'R':
                    j['st'][i] = 'X'
                elif x == 'T':
                    j['pending_int'].add(i)    # a stopped process takes the signal when it continues
        elif a.startswith('REL'):
            j = self.jobs[int(a[3:])]
            j['gate_open'] = True
            j['st'] = ['X' if x == 'R' else x for x in j['st']]
        elif a[:4] in ('STOP', 'KILL', 'CONT'):
            jid, idx = a[4:].split('.')
            j = self.jobs[int(jid)]
            idx = min(int(idx), j['n'] - 1)
            if j['st'][idx] != 'X':
                if a[:4] == 'STOP':
                    j['st'][idx] = 'T'
                elif a[:4] == 'KILL':
                    j['st'][idx] = 'X'
                else:
                    j['st'][idx] = 'X' if (j['gate_open'] or idx in j['pending_int']) else 'R'
        elif a[:2] == 'fg':
            jid = int(a[2:])
            self._resume(jid)
            self.jobs[jid]['bg'] = False
            self.fg = jid
        elif a[:2] == 'bg':
            self._resume(int(a[2:]))
            self.jobs[int(a[2:])]['bg'] = True
            polled = True
        elif a in ('J', 'E', 'NF', 'FALSE'):
            polled = True
        # the foreground wait ends when every member has exited or is stopped
        if self.fg is not None:
            j = self.jobs[self.fg]
            if all(x in 'TX' for x in j['st']):
                if all(x == 'X' for x in j['st']):
                    del self.jobs[self.fg]
                else:
                    j['bg'] = True
                self.fg = None
                polled = True     # the prompt loop polls after the command
        if polled:
            self.seen = {jid: list(j['st']) for jid, j in self.jobs.items()}
        # background jobs whose members are all gone are forgotten by the shell at its next poll
        for jid in list(self.jobs):
            if jid != self.fg and all(x == 'X' for x in self.jobs[jid]['st']):
                if polled:
                    del self.jobs[jid]
                else:
                    self.jobs[jid]['unreported'] = True
        return new


class Driver:
    def __init__(self, d):
        self.d = d
        self.s = ptydrv.Session(d)
        self.m = Model()
        self.pids = {}            # job id -> [pid per stage]
        self.gates = {}
        self.ngates = 0
        self.problem = None
        self.shell_pgid = None

    def start(self):
        if not self.s.start():
            self.problem = ('machinery', 'no prompt')
            return False
        self.shell_pgid = os.getpgid(self.s.pid)
        return True

    def expect(self, what, pred, timeout=5.0):
        if self.problem:
            return False
        if not self.s.wait(pred, timeout):
            self.problem = (what, self.snapshot())
            return False
        return True

    def snapshot(self):
        return {'tcgetpgrp': self.s.fg_pgrp(), 'shell_pgid': self.shell_pgid, 'fg_job': self.m.fg,
                'jobs': {jid: {'pids': self.pids.get(jid), 'model': j['st'], 'proc': [ptydrv.proc_state(p) for p in self.pids.get(jid, [])],
                               'pgid': [ptydrv.proc_pgid(p) for p in self.pids.get(jid, [])]} for jid, j in self.m.jobs.items()},
                'screen_tail': self.s.buf[-300:].decode('utf-8', 'replace')}

    def check_members(self, what, model_jobs):
        for jid, j in model_jobs.items():
            pids = self.pids.get(jid, [])
            for p, want in zip(pids, j['st']):
                if want == 'X':
                    self.expect(what + ':member-should-be-gone', lambda p=p: ptydrv.proc_state(p) in 'XZ')
                elif want == 'T':
                    self.expect(what + ':member-should-be-stopped', lambda p=p: ptydrv.proc_state(p) in 'Tt')
                else:
                    self.expect(what + ':member-should-run', lambda p=p: ptydrv.proc_state(p) in 'RSD')
                if want != 'X':
                    self.expect(what + ':process-group', lambda p=p, pids=pids: ptydrv.proc_pgid(p) == pids[0])

    def act(self, a):
        s = self.s
        before = s.prompts()
        was_fg = self.m.fg
        pre = self.m.copy()
        if a in ('F1', 'F2', 'B1', 'B2'):
            n = int(a[1])
            self.ngates += 1
            gate = os.path.join(self.d, 'gate%d' % self.ngates)
            line = ' | '.join(['vh-wait %s' % gate] * n) + (' &' if a[0] == 'B' else '')
            nrec0 = len([r for r in s.records() if r.get('k') == 'wait'])
            s.send(line + '\r')
            if not self.expect(a + ':stages-start', lambda: len([r for r in s.records() if r.get('k') == 'wait']) >= nrec0 + n):
                return
            recs = [r for r in s.records() if r.get('k') == 'wait'][nrec0:]
            leader = [r['pid'] for r in recs if r['pgid'] == r['pid']]
            if len(leader) != 1 or any(r['pgid'] != leader[0] for r in recs):
                self.problem = (a + ':process-group', {'records': [(r['pid'], r['pgid']) for r in recs]})
                return
            jid = self.m.apply(a)
            self.pids[jid] = leader + [r['pid'] for r in recs if r['pid'] != leader[0]]
            self.gates[jid] = gate
        else:
            if a == '^Z':
                s.send('\x1a')
            elif a == '^C':
                s.send('\x03')
            elif a.startswith('REL'):
                with open(self.gates[int(a[3:])], 'w') as f:
                    f.write('x')
            elif a[:4] in ('STOP', 'KILL', 'CONT'):
                jid, idx = a[4:].split('.')
                pids = self.pids[int(jid)]
                p = pids[min(int(idx), len(pids) - 1)]
                try:
                    os.kill(p, {'STOP': signal.SIGSTOP, 'KILL': signal.SIGKILL, 'CONT': signal.SIGCONT}[a[:4]])
                except OSError:
                    pass
            elif a[:2] in ('fg', 'bg'):
                s.send('%s %s\r' % (a[:2], a[2:]))
            elif a == 'E':
                s.send('\r')
            elif a == 'NF':
                s.send('vh-nosuchcommand\r')
            elif a == 'FALSE':
                s.send('vh-mark x 1\r')
            elif a == 'J':
                self.jobs_check('J')
                return
            self.m.apply(a)
        # members first (against the state before the model forgets finished jobs), then the terminal owner
        merged = {jid: j for jid, j in pre.jobs.items()}
        for jid, j in self.m.jobs.items():
            merged[jid] = j
        for jid in merged:
            if jid not in self.m.jobs:
                merged[jid] = dict(merged[jid], st=['X'] * merged[jid]['n'])
        self.check_members(a, merged)
        # (`fg` of a job whose members all end at once, e.g. after their gate was opened while stopped, returns to the prompt too)
        command_line = a in ('B1', 'B2', 'E', 'NF', 'FALSE') or a[:2] in ('bg', 'fg')
        if self.m.fg is None and (command_line or was_fg is not None):
            self.expect(a + ':prompt-returns', lambda: s.prompts() > before)
        owner = self.shell_pgid if self.m.fg is None else self.pids[self.m.fg][0]
        self.expect(a + ':terminal-owner', lambda: s.fg_pgrp() == owner)

    def jobs_check(self, what):
        s = self.s
        if self.m.fg is not None:
            return
        before = s.prompts()
        mark = len(s.buf)
        s.send('jobs\r')
        if not self.expect(what + ':prompt-returns', lambda: s.prompts() > before):
            return
        self.m.apply('J')
        text = s.buf[mark:].decode('utf-8', 'replace')
        listed = {}
        for m in re.finditer(r'\[(\d+)\] (\d+)\s+(Running|Stopped)', text):
            listed[int(m.group(1))] = (int(m.group(2)), m.group(3))
        want = {jid: (self.pids[jid][0], self.m.status(jid)) for jid in self.m.jobs}
        if listed != want:
            self.problem = (what + ':jobs-listing', {'listed': listed, 'model': want, 'screen': text[-300:]})
            return
        self.expect(what + ':terminal-owner', lambda: s.fg_pgrp() == self.shell_pgid)

    def close(self):
        for pids in self.pids.values():
            for p in pids:
                try:
                    os.kill(p, signal.SIGKILL)
                except OSError:
                    pass
        try:
            os.kill(self.s.pid, signal.SIGKILL)
        except OSError:
            pass
        self.s.close()


def run_sequence(job):
    seq, tier = job
    d = common.fresh_case_dir()
    drv = Driver(d)
    try:
        if not drv.start():
            return seq, ('machinery', 'no prompt'), None
        done = []
        for a in seq:
            if a not in drv.m.enabled(tier):
                return seq, ('machinery', 'action %s not enabled after %r' % (a, done)), None
            drv.act(a)
            done.append(a)
            if drv.problem:
                return seq, drv.problem, done
        drv.jobs_check('final')
        if drv.problem:
            return seq, drv.problem, done + ['(final jobs)']
        return seq, None, done
    finally:
        drv.close()
        common.drop_case_dir(d)


def enumerate_sequences(depth, tier):
    """all action sequences of exactly `depth` actions that are enabled in the reference model"""
    out = []

    def rec(prefix, m):
        if len(prefix) == depth:
            out.append(tuple(prefix))
            return
        for a in m.enabled(tier):
            m2 = m.copy()
            m2.apply(a)
            rec(prefix + [a], m2)
    rec([], Model())
    return out


TRACK_SEEN = [False]


def model_key(m):
    """canonical form of a model state: everything the model's future behaviour depends on; with TRACK_SEEN also what the
    shell has been told at its last poll (two paths that differ only in WHEN the shell polled are then different states)"""
    seen = tuple(sorted((k, tuple(v)) for k, v in m.seen.items() if k in m.jobs)) if TRACK_SEEN[0] else ()
    return (m.fg, seen, tuple(sorted((k, v['n'], tuple(v['st']), v['bg'], v['gate_open'], tuple(sorted(v['pending_int'])), v['unreported']) for k, v in m.jobs.items())))


def bfs_transitions(alphabet, maxdepth):
    """explicit-state search over the reference model: every transition (state, action) out of every distinct model
    state reachable within maxdepth - 1 actions, as the shortest action path reaching the state plus the action.
    Returns (paths, number of distinct states, fixpoint reached?)."""
    seen = {model_key(Model())}
    frontier = [((), Model())]
    paths = []
    depth = 0
    while frontier and depth < maxdepth:
        nxt = []
        for path, m in frontier:
            for a in m.enabled(alphabet):
                m2 = m.copy()
                m2.apply(a)
                paths.append(path + (a,))
                k = model_key(m2)
                if k not in seen:
                    seen.add(k)
                    nxt.append((path + (a,), m2))
        frontier = nxt
        depth += 1
    return paths, len(seen), not frontier


def run(rep, tier):
    depth = 4 if tier == 'quick' else 5
    rep.rule = ('all action sequences of depth %d that are enabled in the reference model (<= 2 jobs alive), each replayed from a fresh interactive shell on a pty with the oracle evaluated after every action; '
                'non-trivial = sequence that creates at least one job; distinct = distinct action sequence' % depth)
    rep.assumptions = [
        'every stage is the helper vh-wait (blocks until its gate file exists): finishing a job is an explorer action; signal delivery is serialised (each action settles before the next) — simultaneous arrivals are covered by C06',
        '`bg` is not applied to a job whose members would end the moment they are continued (released gate or pending interrupt): the poll inside the same command races with their exit',
        '`fg` / `bg` are always given an explicit job id (without an id cicada picks a job by hash-map order, which the statement does not fix)',
        'each predicted condition is awaited for at most 5 s with 5 ms polling; a condition that is not reached is the violation',
        'explicit-state layer: model states are merged by their canonical form (jobs with member states, gate, pending interrupts, foreground job); shell-internal state that differs between two paths to the same model state is only covered by the sequence layer',
        'quick: depth 4 over the reduced action alphabet (no CONT, no empty line / not-found / failing command, signals only to the first member at the prompt) plus depth 3 over the full alphabet; thorough: depth 4 over the full alphabet plus depth 5 over the reduced one',
    ]
    # (shorter sequences are prefixes of the maximal ones)
    if tier == 'quick':
        jobs = [(s, 'quick') for s in enumerate_sequences(4, 'quick')] + [(s, 'thorough') for s in enumerate_sequences(3, 'thorough')]
    else:
        jobs = [(s, 'thorough') for s in enumerate_sequences(4, 'thorough')] + [(s, 'quick') for s in enumerate_sequences(5, 'quick')]
    # explicit-state layer: every transition out of every distinct model state (canonical form = model_key), far deeper
    # than the sequence enumeration reaches; quick: reduced alphabet to depth 6, thorough: reduced alphabet to the FIXPOINT
    # and the full alphabet to depth 6
    have = set(j[0] for j in jobs)
    bfs_info = []
    for alphabet, maxdepth, seen in ([('quick', 6, False), ('polls', 9, True)] if tier == 'quick' else [('polls', 9, True), ('quick', 40, False), ('thorough', 6, False), ('thorough', 6, True)]):
        TRACK_SEEN[0] = seen
        paths, nstates, fix = bfs_transitions(alphabet, maxdepth)
        TRACK_SEEN[0] = False
        extra = [p for p in paths if p not in have]
        have.update(extra)
        jobs += [(p, alphabet) for p in extra]
        bfs_info.append({'layer': 'explicit-state search over the reference model, every transition replayed on a pty', 'alphabet': {'quick': 'reduced', 'thorough': 'full', 'polls': 'polls (one background two-stage pipeline, stop / continue / kill of either member, jobs)'}[alphabet],
                         'max_depth': maxdepth, 'states_distinguish_what_the_shell_was_told_at_its_last_poll': seen, 'model_states': nstates, 'transitions': len(paths), 'sessions_added': len(extra), 'fixpoint': fix, 'complete': True})
    seqs = [j[0] for j in jobs]
    states = set()
    for seq, problem, done in common.pmap(run_sequence, jobs, workers=6, chunk=2):
        rep.evaluations += 1
        rep.transitions += len(done or [])
        if any(a[0] in 'FB' for a in seq):
            rep.nontrivial += 1
        if problem is None:
            mm = Model()
            for a in seq:
                mm.apply(a)
            states.add(model_key(mm))
        if problem is None:
            rep.outcome('ok')
            rep.traces_validated += 1
        elif problem[0] == 'machinery':
            rep.machinery.append('%s: %r' % (problem[1], seq))
        else:
            rep.outcome('deviation:' + problem[0].split(':')[-1])
            # class: the failing action kind and the condition that was not reached
            act_, cond = problem[0].split(':', 1) if ':' in problem[0] else (problem[0], '')
            kind = re.sub(r'[0-9.]+', '', act_)
            prev = re.sub(r'[0-9.]+', '', done[-2]) if done and len(done) >= 2 else 'start'
            rep.violation('%s:after-%s:prev-%s' % (cond, kind, prev), {'actions': list(seq), 'performed': done}, 'the condition predicted by the reference model is reached within 5 s',
                          problem[1], repro='interactive session: ' + ' ; '.join(seq))
    rep.states = len(states)
    rep.bounds.append({'layer': 'pty sessions', 'depth': depth, 'sequences': len(seqs), 'complete': True})
    rep.bounds.extend(bfs_info)
    rep.sample({'actions': list(seqs[len(seqs) // 2])})
    if rep.traces_validated < 30 and not rep.viol:
        rep.machinery.append('vacuity guard: too few passing sessions')


def replay(rec):
    """re-execute the recorded action sequence on a fresh interactive shell (no explorer): exit 1 if it fails again"""
    seq = tuple(rec['case']['actions'])
    for attempt in range(3):
        _, problem, done = run_sequence((seq, 'thorough'))
        print('run %d: %s' % (attempt + 1, 'conditions reached' if problem is None else 'FAILED at %s: %s' % (problem[0], str(problem[1])[:400])))
        if problem is not None and problem[0] != 'machinery':
            print('VIOLATION property=C07 replay=(this file) actions=%s' % ' '.join(seq))
            return 1
    return 0
