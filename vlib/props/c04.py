"""C04 — redirections connect exactly the named descriptors to the named files.

All sequences of up to 2 (thorough 3) redirections over {>f >>f 1>f 2>f 2>>f 2>&1 1>&2 >&2 <g <<<w} (two target files),
spaced, attached, and spaced / attached with the target written as a quoted word, on an external program (alone and as first/middle/last stage of a three-stage pipeline) and on
output-producing builtins (alias listing for stdout, unalias of a missing name for stderr, read for stdin) and on an
external program whose output is captured by "$(...)", against
target files that are absent, present with content, or unopenable, followed by a second command that must be
unaffected; executed by the real binary. Oracle: reference descriptor-table model applied left to right (open file
descriptions with shared offsets for duplicated descriptors)."""
import itertools
import os

from .. import common

REDIRS = ['>f1', '>>f1', '1>f1', '2>f1', '2>>f1', '2>&1', '1>&2', '>&2', '>f2', '2>f2', '<g', '<<<w']
OLD = 'old-content\n'
GTEXT = 'from-g\n'


def spell(r, spaced):
    if not spaced:
        return r
    for op in ('<<<', '2>>', '1>', '2>', '>>', '>', '<'):
        if r.startswith(op) and not r[len(op):].startswith('&'):
            q = {'dq': '"', 'sq': "'", 'adq': '"'}.get(spaced, '')      # the target written as a quoted word
            return op + ('' if spaced == 'adq' else ' ') + q + r[len(op):] + q
    return r


class OFD:
    """an open file description: target + offset (+ append)"""
    def __init__(self, target, append=False):
        self.target, self.append, self.off = target, append, 0


def model(redirs, files, out_text, err_text, default_stdin):
    """Apply `redirs` left to right. files: name -> content or None (absent) or 'UNOPENABLE'.
    Returns dict(files, OUT, ERR, stdin, failed)."""
    files = dict(files)
    sink = {'OUT': '', 'ERR': ''}
    fds = {0: default_stdin, 1: OFD('OUT'), 2: OFD('ERR')}
    failed = False
    for r in redirs:
        if r in ('2>&1',):
            fds[2] = fds[1]
        elif r in ('1>&2', '>&2'):
            fds[1] = fds[2]
        elif r.startswith('<<<'):
            fds[0] = r[3:] + '\n'
        elif r.startswith('<'):
            name = r[1:]
            if files.get(name) in (None, 'UNOPENABLE'):
                failed = True
                break
            fds[0] = files[name]
        else:
            fd = 2 if r.startswith('2') else 1
            body = r.lstrip('12')
            append = body.startswith('>>')
            name = body.lstrip('>')
            if files.get(name) == 'UNOPENABLE':
                failed = True
                break
            if files.get(name) is None or not append:
                files[name] = '' if not append or files.get(name) is None else files[name]
            fds[fd] = OFD(name, append)
    if failed:
        return {'files': files, 'OUT': '', 'ERR': None, 'stdin': None, 'failed': True}

    def write(ofd, text):
        if not text:
            return
        if ofd.target in sink:
            sink[ofd.target] += text
            return
        cur = files[ofd.target]
        if ofd.append:
            files[ofd.target] = cur + text
        else:
            if len(cur) < ofd.off:
                cur = cur + '\0' * (ofd.off - len(cur))
            files[ofd.target] = cur[:ofd.off] + text + cur[ofd.off + len(text):]
            ofd.off += len(text)
    write(fds[1], out_text)
    write(fds[2], err_text)
    return {'files': files, 'OUT': sink['OUT'], 'ERR': sink['ERR'], 'stdin': fds[0], 'failed': False}


COMMANDS = ['ext', 'ext-first', 'ext-middle', 'ext-last', 'alias', 'unalias', 'read', 'ext-captured']


def build(cmd, redirs, spaced):
    rs = ' '.join(spell(r, spaced) for r in redirs)
    if cmd == 'ext':
        core = 'vh-io T %s' % rs
    elif cmd == 'ext-first':
        core = 'vh-io T %s | vh-io B | vh-io C' % rs
    elif cmd == 'ext-middle':
        core = 'vh-io A | vh-io T %s | vh-io C' % rs
    elif cmd == 'ext-last':
        core = 'vh-io A | vh-io B | vh-io T %s' % rs
    elif cmd == 'ext-captured':
        # output capture: the capture pipe takes the place of the inherited stdout, redirections apply on top of it
        return ('alias q=r ; vh-argv2 "$(vh-io T %s)" ; vh-mark S 0 $? ; vh-io P' % rs).replace('  ', ' ')
    elif cmd == 'alias':
        core = 'alias %s' % rs
    elif cmd == 'unalias':
        core = 'unalias nosuch %s' % rs
    else:
        core = 'read RV %s' % rs
        return ('alias q=r ; %s ; vh-mark S 0 $? ; vh-argv2 "$RV" ; vh-io P' % core).replace('  ', ' ')
    return ('alias q=r ; %s ; vh-mark S 0 $? ; vh-io P' % core).replace('  ', ' ')


def run_case(case):
    cmd, redirs, spaced, state = case
    d = common.fresh_case_dir()
    try:
        w = os.path.join(d, 'w')
        os.makedirs(w)
        files = {'f1': None, 'f2': None, 'g': GTEXT}
        if state == 'present':
            files['f1'] = OLD
            files['f2'] = OLD
        elif state == 'unopenable':
            files['f1'] = 'UNOPENABLE'
            files['f2'] = 'UNOPENABLE'
            files['g'] = None
            os.makedirs(os.path.join(w, 'f1'))
            os.makedirs(os.path.join(w, 'f2'))
        elif state == 'unopenable-f1':
            files['f1'] = 'UNOPENABLE'
            os.makedirs(os.path.join(w, 'f1'))
        for n, c in files.items():
            if c not in (None, 'UNOPENABLE'):
                with open(os.path.join(w, n), 'w') as f:
                    f.write(c)
        line = build(cmd, redirs, spaced)
        r = common.run_cicada(['-c', line], d, cwd=w, stdin=b'shell-stdin\n', timeout=20)
        obs = {'out': r.out.decode('utf-8', 'replace'), 'err': r.err.decode('utf-8', 'replace'), 'timed_out': r.timed_out, 'files': {}}
        for n in ('f1', 'f2'):
            p = os.path.join(w, n)
            if os.path.isfile(p):
                with open(p, 'rb') as f:
                    obs['files'][n] = f.read().decode('utf-8', 'replace')
            elif os.path.isdir(p):
                obs['files'][n] = 'UNOPENABLE'
            else:
                obs['files'][n] = None
        obs['new'] = sorted(set(os.listdir(w)) - {'f1', 'f2', 'g'})
        obs['io'] = {}
        obs['qstatus'] = None
        for x in r.records:
            if x.get('k') == 'io':
                obs['io'][x['argv'][0]] = (x.get('stdin') or b'').decode('utf-8', 'replace') if 'stdin' in x else None
            if x.get('k') == 'mark' and x['argv'][0] == 'S':
                obs['qstatus'] = x['argv'][2]
            if x.get('k') == 'argv' and x.get('name') == 'vh-argv2':
                obs['read_value'] = x['argv'][0] if x['argv'] else ''
        return case, line, obs
    finally:
        common.drop_case_dir(d)


def expect(case, baseline):
    """Expected observation from the reference model; baseline = texts the builtins print without redirection."""
    cmd, redirs, spaced, state = case
    files = {'f1': None, 'f2': None, 'g': GTEXT}
    if state == 'present':
        files.update(f1=OLD, f2=OLD)
    elif state == 'unopenable':
        files.update(f1='UNOPENABLE', f2='UNOPENABLE', g=None)
    elif state == 'unopenable-f1':
        files.update(f1='UNOPENABLE')
    exp = {'io': {}, 'err_lines': [], 'out': ''}
    if cmd.startswith('ext'):
        default_in = {'ext': 'shell-stdin\n', 'ext-first': 'shell-stdin\n', 'ext-middle': 'out:A\n', 'ext-last': 'out:B\n', 'ext-captured': 'shell-stdin\n'}[cmd]
        m = model(redirs, files, 'out:T\n', 'err:T\n', default_in)
    elif cmd == 'alias':
        m = model(redirs, files, baseline['alias_out'], '', None)
    elif cmd == 'unalias':
        m = model(redirs, files, '', baseline['unalias_err'], None)
    else:
        m = model(redirs, files, '', '', 'shell-stdin\n')
    exp['files'] = {k: v for k, v in m['files'].items() if k in ('f1', 'f2')}
    exp['failed'] = m['failed']
    exp['model'] = m
    return exp


def compare(case, exp, obs, baseline):
    """Returns None if the observation fits the model, else a deviation kind."""
    cmd, redirs, spaced, state = case
    m = exp['model']
    if obs['timed_out']:
        return 'hang'
    if obs['new']:
        return 'unexpected-file'
    if 'P' not in obs['io']:
        return 'following-command-not-run'
    if 'out:P\n' not in obs['out'] or 'err:P\n' not in obs['err']:
        return 'following-command-descriptors'
    if obs['io'].get('P') not in ('shell-stdin\n', '', None) and cmd != 'read':
        pass
    if m['failed']:
        # unopenable target: the command must not run and the status must be non-zero
        if cmd.startswith('ext') and 'T' in obs['io']:
            return 'ran-despite-unopenable-target'
        # (after `2>&1` the shell's own diagnostic about the target goes where stderr points by then: only the
        # program's lines must not be there)
        if cmd == 'ext-captured' and ('out:T' in (obs.get('read_value') or '') or 'err:T' in (obs.get('read_value') or '')):
            return 'captured-text'
        if cmd in ('ext', 'ext-last', 'alias', 'unalias', 'read') and obs['qstatus'] in ('0', None):
            return 'zero-status-despite-unopenable-target'
        if cmd == 'alias' and baseline['alias_out'].strip() in obs['out']:
            return 'ran-despite-unopenable-target'
        return None
    if obs['files'] != exp['files']:
        return 'file-contents'
    # what reached the line's stdout / stderr
    out_expected = m['OUT']
    err_expected = m['ERR']
    if cmd == 'ext-first':
        # T's stdout goes to B unless redirected; B and C are plain copiers of nothing: they print their own tags
        pass
    out_obs = obs['out'].replace('out:P\n', '', 1)
    err_obs = obs['err'].replace('err:P\n', '', 1)
    if cmd == 'ext-captured':
        if obs.get('read_value') != out_expected.rstrip('\n'):
            return 'captured-text'
        if out_obs != '':
            return 'stdout-bytes'
        if err_obs != err_expected:
            return 'stderr-bytes'
        if obs['io'].get('T') != m['stdin']:
            return 'stdin-bytes'
        return None
    if cmd in ('ext', 'alias', 'unalias', 'read'):
        if out_obs != out_expected:
            return 'stdout-bytes'
        if err_obs != err_expected:
            return 'stderr-bytes'
        if cmd == 'ext' and obs['io'].get('T') != m['stdin']:
            return 'stdin-bytes'
        if cmd == 'read':
            if obs.get('read_value') != (m['stdin'] or '').rstrip('\n'):
                return 'stdin-bytes'
            return None
        want_status = '1' if cmd == 'unalias' else '0'
        if obs['qstatus'] != want_status:
            return 'status'
        return None
    # pipelines: stage T's neighbours
    if obs['io'].get('T') != m['stdin']:
        return 'stdin-bytes'
    if cmd == 'ext-first':
        # B's stdin = what T wrote to OUT (its stdout is the pipe)
        if obs['io'].get('B') != m['OUT']:
            return 'pipe-to-next-stage'
        if sorted(err_obs.splitlines()) != sorted((m['ERR'] + 'err:B\nerr:C\n').splitlines()):
            return 'stderr-bytes'
        if out_obs != 'out:C\n':
            return 'stdout-bytes'
    elif cmd == 'ext-middle':
        if obs['io'].get('C') != m['OUT']:
            return 'pipe-to-next-stage'
        if sorted(err_obs.splitlines()) != sorted((m['ERR'] + 'err:A\nerr:C\n').splitlines()):
            return 'stderr-bytes'
        if out_obs != 'out:C\n':
            return 'stdout-bytes'
    else:
        if out_obs != m['OUT']:
            return 'stdout-bytes'
        if sorted(err_obs.splitlines()) != sorted((m['ERR'] + 'err:A\nerr:B\n').splitlines()):
            return 'stderr-bytes'
    return None


def cases(tier):
    out = []
    maxn = 3 if tier == 'thorough' else 2
    for n in range(0, maxn + 1):
        for seq in itertools.product(REDIRS, repeat=n):
            # at most one stdin redirection, and it is the statement's left-to-right model for outputs
            if sum(1 for r in seq if r.startswith('<')) > 1:
                continue
            for cmd in COMMANDS:
                has_in = any(r.startswith('<') for r in seq)
                if cmd == 'read' and not (has_in or n == 0):
                    continue
                if cmd in ('alias', 'unalias') and has_in:
                    continue
                if n == 3 and cmd not in ('ext', 'alias', 'unalias', 'ext-captured'):
                    continue
                if n == 2 and tier == 'quick' and cmd in ('ext-first', 'ext-last'):
                    continue
                for state in ('absent', 'present'):
                    if state == 'present' and (n == 0 or (tier == 'quick' and n == 2 and cmd != 'ext')):
                        continue
                    out.append((cmd, seq, True, state))
                if n == 1:
                    out.append((cmd, seq, False, 'absent'))
                    out.append((cmd, seq, 'dq', 'absent'))
                    out.append((cmd, seq, 'sq', 'present'))
                    out.append((cmd, seq, 'adq', 'absent'))     # operator glued to the quoted target: >"f1"
                    if seq[0] not in ('2>&1', '1>&2', '>&2', '<<<w'):
                        out.append((cmd, seq, True, 'unopenable'))
                elif n == 2 and cmd in ('ext', 'alias', 'unalias', 'read', 'ext-captured'):
                    if cmd in ('ext', 'alias', 'read'):
                        out.append((cmd, seq, 'dq', 'absent'))
                    # only the first target file cannot be opened: the command fails there, whatever follows
                    if any('f1' in r for r in seq):
                        out.append((cmd, seq, True, 'unopenable-f1'))
    return out


def sig_class(case):
    cmd, redirs, spaced, state = case
    kinds = sorted(set(('dup' if '&' in r else 'here' if r.startswith('<<<') else 'in' if r.startswith('<') else 'file') for r in redirs))
    if cmd in ('alias', 'unalias', 'read'):
        # builtins that run inside the shell: one class per builtin and kind of redirections used
        return 'builtin-%s:%s' % (cmd, '+'.join(kinds) or 'none')
    return 'external:%s:%s:%s:%s' % (cmd, '+'.join(kinds) or 'none', {True: 'spaced', False: 'attached'}.get(spaced, 'quoted-target'), state)


def run(rep, tier):
    rep.rule = ('all sequences of up to N redirections over %r x commands %r x spelling x initial file state; non-trivial = at least one redirection; '
                'distinct = distinct (command line, file state)' % (REDIRS, COMMANDS))
    rep.assumptions = [
        'descriptors 1 and 2 only, two target files, one input file; output capture: an external program inside "$(...)" (the capture pipe takes the place of stdout)',
        'the external program writes its stdout line first and its stderr line second; lines of different stages on a shared stderr are compared as a multiset',
        'builtin texts (alias listing, unalias diagnostic) are taken from a run without redirection',
    ]
    base = common.pmap(run_case, [('alias', (), True, 'absent'), ('unalias', (), True, 'absent')], chunk=1)
    baseline = {'alias_out': base[0][2]['out'].replace('out:P\n', '', 1), 'unalias_err': base[1][2]['err'].replace('err:P\n', '', 1)}
    if 'q' not in baseline['alias_out'] or not baseline['unalias_err'].strip():
        rep.machinery.append('baseline run of the builtins produced no text: %r' % (baseline,))
        return
    cs = cases(tier)
    states = set()
    for case, line, obs in common.pmap(run_case, cs, chunk=6):
        rep.evaluations += 1
        rep.transitions += 1
        if case[1]:
            rep.nontrivial += 1
        exp = expect(case, baseline)
        dev = compare(case, exp, obs, baseline)
        states.add((repr(obs['files']), obs['out'], obs['err']))
        if dev is None:
            rep.outcome('ok:' + ('failed-cleanly' if exp['failed'] else case[0]))
            rep.traces_validated += 1
        else:
            rep.outcome('deviation:' + dev)
            e = {k: exp['model'].get(k) for k in ('files', 'OUT', 'ERR', 'stdin', 'failed')}
            rep.violation('%s:%s' % (dev, sig_class(case)), {'line': line, 'file_state': case[3]}, e,
                          {k: obs.get(k) for k in ('files', 'out', 'err', 'io', 'qstatus', 'new', 'read_value')}, repro='cicada -c %s' % common.shquote(line))
    rep.states = len(states)
    rep.bounds.append({'layer': 'real binary -c', 'max_redirections': 3 if tier == 'thorough' else 2, 'cases': len(cs), 'complete': True})
    rep.sample({'line': build(*cs[len(cs) // 2][:3]), 'file_state': cs[len(cs) // 2][3]})
    if rep.outcomes.get('ok:ext', 0) < 20:
        rep.machinery.append('vacuity guard: too few passing external cases')
