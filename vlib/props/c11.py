"""C11 — command substitution splices the command's output in literally, exactly once.

Output texts = all sequences of up to 2 atoms over {x blank $1 ${x} $A backslash newline * {a,b} ) ( .+ `cmd` $(cmd)} (211 texts;
a substitution in the OUTPUT must not be run) and
trailing-newline variants, produced by the helper vh-emit (which records every run), substituted with $(...) and
backquotes, as whole word / at word start / middle / end, unquoted and double-quoted, as the right-hand side of an
assignment and as here-string operand; inner commands: external, pipeline, builtin, failing, not found, syntactically
invalid, function; two substitutions in one word and in one line; the substituted word next to other words of every
quoting kind (8 before x 6 after). Executed by the real binary. Oracle: one argument = head +
output without trailing newlines + tail (byte-exact; unquoted may be split at blanks), helper ran exactly once per
substitution, the shell's variables are visible inside, a failing/invalid inner command gives a diagnostic and an
empty replacement and never hangs."""
import itertools
import os

from .. import common

ATOMS = ['x', ' ', '$1', '${x}', '$A', '\\', '\n', '*', '{a,b}', ')', '(', '.+', '`vh-mark RAN 0`', '$(vh-mark RAN 0)']


def texts():
    out = ['']
    for n in (1, 2):
        for t in itertools.product(ATOMS, repeat=n):
            out.append(''.join(t))
    return out


def strip_nl(s):
    return s.rstrip('\n')


def build_cases(tier):
    """each case: dict(line, files {K: bytes}, expect list of acceptable argv lists for vh-argv, emits expected count)"""
    cases = []
    T = texts()
    k = 0

    def case(text, spelling, placement, ctx, extra_nl=''):
        nonlocal k
        k += 1
        key = 'k%d' % k
        sub = ('$(vh-emit %s)' if spelling == 'dollar' else '`vh-emit %s`') % key
        head, tail = {'whole': ('', ''), 'start': ('', 't'), 'middle': ('h', 't'), 'end': ('h', '')}[placement]
        word = head + sub + tail
        body = strip_nl(text + extra_nl)
        full = head + body + tail
        if ctx == 'dq':
            line = 'vh-argv "%s"' % word
            alts = [[full]]
        elif ctx == 'unquoted':
            line = 'vh-argv %s' % word
            alts = [[full], full.split()]
            if full == '':
                alts.append([])
        elif ctx == 'assign':
            line = 'V=%s ; vh-argv "$V"' % word
            alts = [[full]]
        else:
            line = 'vh-argv <<< %s' % word
            alts = [[]]
        return {'line': line, 'files': {key: (text + extra_nl).encode()}, 'alts': alts, 'emits': 1, 'text': text + extra_nl, 'spelling': spelling,
                'placement': placement, 'ctx': ctx, 'stdin': (full + '\n') if ctx == 'herestring' else None}
    for text in T:
        for spelling in ('dollar', 'backquote'):
            for placement in ('whole', 'start', 'middle', 'end'):
                for ctx in ('unquoted', 'dq'):
                    if ctx == 'unquoted' and (text != text.strip() or '\n' in text or '  ' in text):
                        continue   # statement silent on leading/trailing blanks of unquoted results
                    if spelling == 'backquote' and placement != 'whole' and ctx == 'unquoted' and False:
                        continue
                    if tier == 'quick' and placement in ('start', 'end') and len(text) > 2:
                        continue
                    cases.append(case(text, spelling, placement, ctx))
            if len(text) <= (5 if tier == 'thorough' else 2):
                cases.append(case(text, spelling, 'whole', 'assign'))
                cases.append(case(text, spelling, 'whole', 'herestring'))
    for text in ['x', 'x y', '$1', '']:
        for nl in ('\n', '\n\n', '\n\n\n'):
            for spelling in ('dollar', 'backquote'):
                cases.append(case(text, spelling, 'middle', 'dq', nl))
    return cases


BEFORE = [('none', '', []), ('plain', 'b1 ', ['b1']), ('sq', "'s q' ", ['s q']), ('dq', '"d q" ', ['d q']), ('escaped-dollar', '\\$e ', ['$e']),
          ('variable', '$A ', ['VALA']), ('other-substitution', '$(vh-emit o) ', ['oo']), ('other-backquote', '`vh-emit o` ', ['oo'])]
AFTER = [('none', '', []), ('plain', ' a1', ['a1']), ('sq', " 's q'", ['s q']), ('dq', ' "d q"', ['d q']), ('variable', ' $A', ['VALA']),
         ('other-backquote', ' `vh-emit o`', ['oo'])]


def neighbour_cases():
    """the substituted word next to other words of every quoting kind: the other words keep their value and position"""
    cases = []
    k = 0
    for (bn, btxt, bargs) in BEFORE:
        for (an, atxt, aargs) in AFTER:
            for spelling in ('dollar', 'backquote'):
                for ctx in ('unquoted', 'dq'):
                    for placement in ('whole', 'middle'):
                        for text in ('x', '$1', 'p q'):
                            if ctx == 'unquoted' and ' ' in text:
                                continue
                            k += 1
                            key = 'n%d' % k
                            sub = ('$(vh-emit %s)' if spelling == 'dollar' else '`vh-emit %s`') % key
                            head, tail = ('', '') if placement == 'whole' else ('h', 't')
                            word = head + sub + tail
                            if ctx == 'dq':
                                word = '"%s"' % word
                            line = 'vh-argv ' + btxt + word + atxt
                            others = (1 if 'vh-emit o' in btxt else 0) + (1 if 'vh-emit o' in atxt else 0)
                            files = {key: (text + '\n').encode()}
                            if others:
                                files['o'] = b'oo\n'
                            cases.append({'line': line, 'files': files, 'alts': [bargs + [head + text + tail] + aargs], 'emits': 1 + others, 'text': text,
                                          'spelling': spelling, 'placement': placement, 'ctx': ctx, 'stdin': None, 'neighbours': '%s/%s' % (bn, an)})
    return cases


def special_cases():
    """(name, line, files, checker description)"""
    S = []
    S.append(('two-in-word', 'vh-argv "$(vh-emit a)-$(vh-emit b)"', {'a': b'one\n', 'b': b'two\n'}, [['one-two']], 2))
    S.append(('two-in-word-backquote', 'vh-argv "`vh-emit a`-`vh-emit b`"', {'a': b'one\n', 'b': b'two\n'}, [['one-two']], 2))
    S.append(('two-words', 'vh-argv "$(vh-emit a)" "$(vh-emit b)"', {'a': b'one\n', 'b': b'two\n'}, [['one', 'two']], 2))
    S.append(('two-words-mixed', 'vh-argv "$(vh-emit a)" "`vh-emit b`"', {'a': b'$1\n', 'b': b'two\n'}, [['$1', 'two']], 2))
    S.append(('pipeline-inside', 'vh-argv "$(vh-emit a | cat)"', {'a': b'p q\n'}, [['p q']], 1))
    S.append(('builtin-inside', 'alias q=r ; vh-argv "$(alias)"', {}, [["alias q='r'"]], 0))
    S.append(('function-inside', 'function fn1() {\n vh-emit a\n}\nvh-argv "$(fn1)"', {'a': b'f o\n'}, [['f o']], 1))
    S.append(('function-inside-backquote', 'function fn1() {\n vh-emit a\n}\nvh-argv "h`fn1`t"', {'a': b'$1\n'}, [['h$1t']], 1))
    S.append(('pipeline-ending-in-builtin-inside', 'alias q=r ; vh-argv "$(vh-emit a | alias)"', {'a': b'zz\n'}, [["alias q='r'"]], 1))
    S.append(('pipeline-ending-in-builtin-inside-backquote', 'alias q=r ; vh-argv "h`vh-emit a | alias`t"', {'a': b'zz\n'}, [["halias q='r't"]], 1))
    S.append(('pipeline-starting-with-builtin-inside', 'alias q=r ; vh-argv "$(alias | vh-io x)"', {}, [['out:x']], 0))
    S.append(('braces-written-inside', 'vh-argv "$(printf \'{a,b}\')" $(printf \'{c,d}\')', {}, [['{a,b}', '{c,d}']], 0))
    S.append(('range-in-output', 'vh-argv "$(vh-emit a)" `vh-emit a`', {'a': b'{1..3}\n'}, [['{1..3}', '{1..3}']], 2))
    S.append(('failing-inside', 'vh-argv "$(vh-emit a 3)"', {'a': b'out\n'}, [['out']], 1))
    S.append(('notfound-inside', 'vh-argv "h$(vh-nosuchcmd)t"', {}, [['ht']], 0))
    S.append(('invalid-inside', 'vh-argv "h$(vh-emit a >)t"', {'a': b'zz\n'}, [['ht']], 0))
    S.append(('invalid-inside-backquote', 'vh-argv "h`vh-emit a >`t"', {'a': b'zz\n'}, [['ht']], 0))
    S.append(('sees-variables', 'B=zz ; vh-argv "$(vh-emit $B)"', {'zz': b'v\n'}, [['v']], 1))
    S.append(('nested', 'vh-argv "$(vh-emit $(vh-emit a))"', {'a': b'b\n', 'b': b'inner\n'}, [['inner']], 2))
    # pattern / substitution characters WRITTEN inside the inner command (quoted there) belong to the inner command
    S.append(('star-written-inside-assignment', 'V=$(printf \'%s\' \'x *\') ; vh-argv "$V"', {}, [['x *']], 0))
    S.append(('star-written-inside-assignment-backquote', 'V=`printf \'%s\' \'x *\'` ; vh-argv "$V"', {}, [['x *']], 0))
    S.append(('star-written-inside-unquoted', 'vh-argv $(printf \'%s\' \'x *\')', {}, [['x *'], ['x', '*']], 0))
    S.append(('backquotes-written-inside-single-quotes', 'vh-argv "$(printf \'%s\' \'`vh-mark RAN 0`\')"', {}, [['`vh-mark RAN 0`']], 0))
    S.append(('dollar-paren-written-inside-single-quotes', 'vh-argv "`printf \'%s\' \'$(vh-mark RAN 0)\'`"', {}, [['$(vh-mark RAN 0)']], 0))
    S.append(('backquotes-inside-dollar', 'vh-argv "$(vh-emit `vh-emit a`)"', {'a': b'b\n', 'b': b'inner\n'}, [['inner']], 2))
    S.append(('dollar-inside-backquotes', 'vh-argv "`vh-emit $(vh-emit a)`"', {'a': b'b\n', 'b': b'inner\n'}, [['inner']], 2))
    S.append(('three-in-word-mixed', 'vh-argv a`vh-emit a`b$(vh-emit b)c`vh-emit a`', {'a': b'1\n', 'b': b'$(vh-mark RAN 0)\n'}, [['a1b$(vh-mark RAN 0)c1']], 3))
    # the shell's own state: a builtin inside a substitution must not act on the shell that expands the word
    S.append(('cd-inside', 'vh-argv "$(cd /)" ; vh-mark CWD 0', {}, [['']], 0))
    S.append(('exit-inside', 'vh-argv "h$(exit 3)t" ; vh-mark CWD 0', {}, [['ht']], 0))
    S.append(('state-unchanged', 'C=1 ; vh-argv "$(vh-emit a)" ; vh-argv2 "$C" $?', {'a': b'o\n'}, [['o']], 1))
    return S


def run_case(c):
    d = common.fresh_case_dir()
    try:
        for key, data in c['files'].items():
            with open(os.path.join(d, 'emit.%s' % key), 'wb') as f:
                f.write(data)
        w = os.path.join(d, 'w')
        os.makedirs(w)
        if '\n' in c['line']:      # several lines (function definitions): run as a script file
            with open(os.path.join(d, 's.sh'), 'w') as f:
                f.write(c['line'] + '\n')
            args = [os.path.join(d, 's.sh')]
        else:
            args = ['-c', c['line']]
        r = common.run_cicada(args, d, cwd=w, env={'A': 'VALA', 'VH_READ_STDIN': '1'}, stdin=b'', timeout=15)
        argv = [x['argv'] for x in r.records if x.get('k') == 'argv' and x.get('name') == 'vh-argv']
        stdin = [x.get('stdin') for x in r.records if x.get('k') == 'argv' and x.get('name') == 'vh-argv']
        argv2 = [x['argv'] for x in r.records if x.get('k') == 'argv' and x.get('name') == 'vh-argv2']
        emits = len([x for x in r.records if x.get('k') == 'emit'])
        marks = [(x['argv'], x.get('cwd', '').replace(w, 'W')) for x in r.records if x.get('k') == 'mark']
        return {'marks': marks, 'timed_out': r.timed_out, 'argv': argv, 'argv2': argv2, 'emits': emits, 'status': r.status, 'stdin': stdin,
                'err': r.err.decode('utf-8', 'replace')[-300:], 'new_files': sorted(os.listdir(w))}
    finally:
        common.drop_case_dir(d)


def atom_class(text):
    cls = []
    for sub in ('`vh-mark RAN 0`', '$(vh-mark RAN 0)'):
        if sub in text:
            cls.append('backquotes' if sub[0] == '`' else 'dollar-paren')
            text = text.replace(sub, '')
    for a, n in (('$1', 'dollar-digit'), ('${x}', 'dollar-brace'), ('$A', 'dollar-name'), ('\\', 'backslash'), ('\n', 'newline'), ('*', 'star'),
                 ('{a,b}', 'braces'), (')', 'rparen'), ('(', 'lparen'), ('.+', 'regex'), (' ', 'blank')):
        if a in text:
            cls.append(n)
    return '+'.join(cls) or 'plain'


def run(rep, tier):
    rep.rule = ('all output texts of up to 2 atoms over %r x {$( ), backquotes} x {whole word, start, middle, end} x {unquoted, double-quoted} (+ assignment, here-string, trailing-newline variants, special inner commands); '
                'non-trivial = output contains a character that a later pass could re-interpret; distinct = distinct (line, output text)' % (ATOMS,))
    rep.assumptions = [
        'outputs are produced by the helper vh-emit from a file (any byte sequence), which also records each run (exactly-once check)',
        'unquoted results are compared only for outputs without leading/trailing blanks or newlines and may be split at blanks; double quotes nested inside a double-quoted substitution are not covered',
        'the environment exports A=VALA so that an output `$A` that were re-expanded would show',
    ]
    cases = build_cases(tier)
    n_main = len(cases)
    cases += neighbour_cases()
    results = common.pmap(run_case, cases, chunk=8)
    rep.states = len(set(repr((o['argv'], o['emits'])) for o in results))
    for c, o in zip(cases, results):
        rep.evaluations += 1
        rep.transitions += 1
        cls = atom_class(c['text'])
        if cls != 'plain':
            rep.nontrivial += 1
        dev = None
        if o['timed_out']:
            dev = 'hang'
        elif o['new_files']:
            dev = 'file-created'
        elif len(o['argv']) != 1:
            dev = 'helper-ran-%d-times' % len(o['argv'])
        elif c['ctx'] == 'herestring':
            if o['stdin'][0] is None or o['stdin'][0].decode('utf-8', 'replace') != c['stdin']:
                dev = 'herestring-text'
        elif o['argv'][0] not in c['alts']:
            dev = 'argv'
        elif o['emits'] != c['emits']:
            dev = 'substitution-ran-%d-times' % o['emits']
        elif o['marks']:
            dev = 'output-run-as-command'
        if dev is None:
            rep.outcome('ok:%s:%s' % (c['spelling'], c['ctx']))
            rep.traces_validated += 1
        else:
            rep.outcome('deviation:' + dev)
            if c.get('neighbours'):
                sig = '%s:%s:%s:%s:next-to-other-words:%s' % (dev, c['spelling'], c['ctx'], c['placement'], c['neighbours'])
            elif c['spelling'] == 'backquote' and c['ctx'] == 'unquoted' and c['placement'] == 'start' and dev == 'argv':
                # one cause whatever the output is: the tokenizer ends a word at the closing backquote
                sig = 'argv:backquote:unquoted:start-of-word-followed-by-text'
            else:
                sig = '%s:%s:%s:%s:%s' % (dev, c['spelling'], c['ctx'], c['placement'], cls)
            rep.violation(sig,
                          {'line': c['line'], 'output_of_inner_command': c['text']}, {'argv_one_of': c['alts'], 'inner_runs': c['emits']},
                          {'argv': o['argv'], 'inner_runs': o['emits'], 'stdin': o['stdin'], 'stderr': o['err'], 'new_files': o['new_files']},
                          repro='printf %%s %r > emit.K ; VH_DIR=. cicada -c %s' % (c['text'], common.shquote(c['line'])))
    sp = special_cases()
    sres = common.pmap(run_case, [{'line': l, 'files': f} for (_, l, f, _, _) in sp], chunk=2)
    for (name, line, files, alts, emits), o in zip(sp, sres):
        rep.evaluations += 1
        rep.transitions += 1
        dev = None
        if o['timed_out']:
            dev = 'hang'
        elif name in ('cd-inside', 'exit-inside') and [m[1] for m in o['marks']] != ['W']:
            dev = 'shell-state-changed'     # the command after the line did not run in the directory the shell was in
        elif len(o['argv']) != 1 or o['argv'][0] not in alts:
            dev = 'argv'
        elif o['emits'] != emits:
            dev = 'inner-runs-%d' % o['emits']
        elif name in ('notfound-inside', 'invalid-inside', 'invalid-inside-backquote') and not o['err'].strip():
            dev = 'no-diagnostic'
        elif name == 'state-unchanged' and o['argv2'] != [['1', '0']]:
            dev = 'shell-state-changed'
        elif name not in ('cd-inside', 'exit-inside') and o['marks']:
            dev = 'output-run-as-command'
        if dev is None:
            rep.outcome('ok:special')
            rep.traces_validated += 1
        else:
            rep.outcome('deviation:' + dev)
            rep.violation('%s:%s' % (dev, name), {'line': line, 'files': {k: v.decode() for k, v in files.items()}}, {'argv': alts, 'inner_runs': emits},
                          {k: o[k] for k in ('argv', 'argv2', 'emits', 'marks', 'err')}, repro='cicada -c %s' % common.shquote(line))
    rep.bounds.append({'layer': 'real binary -c', 'cases': len(cases) + len(sp), 'complete': True})
    rep.sample({'line': cases[n_main // 2]['line'], 'output_of_inner_command': cases[n_main // 2]['text']})
    rep.bounds.append({'layer': 'substituted word next to other words (8 kinds before x 6 after x spelling x quoting x placement x 3 outputs)', 'cases': len(cases) - n_main, 'complete': True})
    if rep.traces_validated < 200:
        rep.machinery.append('vacuity guard: too few passing cases')
