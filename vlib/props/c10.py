"""C10 — parameter expansion substitutes current values, once, and always terminates.

in-process (Rust engine harness/src/props/c10.rs): all words of 1..3 (thorough 4, and 5 for the dangerous
environments) segments over {a - $A ${A} $AB ${AB} $U ${U} $? $$} in unquoted / double-quoted / single-quoted
form under nine variable environments (exported and shell-local), planned by the real code and compared with
a reference single-pass expander; non-termination is caught by the sweep watchdog.
process level (here): all words of <= 2 segments executed by the real binary under four (thorough nine)
environments; the helper's argv must equal the reference."""
import itertools
import os
import re

from .. import common

SEGS = ["a", "-", "$A", "${A}", "$AB", "${AB}", "$U", "${U}", "$?", "$$"]
ENVS = [
    ("plain", "va", "vab", "vb"), ("blank", "x y", "vab", "vb"), ("empty", "", "vab", "vb"),
    ("ref-other", "$B", "vab", "vb"), ("self-braced", "${A}", "vab", "vb"), ("self", "$A", "vab", "vb"),
    ("mutual", "$B", "${AB}", "$A"), ("positional", "$1", "vab", "vb"), ("regex", "a.*+(b)[c]", "v\\1", "vb"),
]
PID = '\0PID\0'


def reference(word, vars_):
    out = []
    i = 0
    n = len(word)
    isname = lambda c: c.isascii() and (c.isalnum() or c == '_')

    def look(name):
        if name == '?':
            return '0'
        if name == '$':
            return PID
        return vars_.get(name, '')
    while i < n:
        if word[i] == '$' and i + 1 < n:
            if word[i + 1] == '{':
                j = word.find('}', i + 2)
                if j != -1:
                    name = word[i + 2:j]
                    if name and (name in ('$', '?') or all(isname(c) for c in name)):
                        out.append(look(name))
                        i = j + 1
                        continue
            elif word[i + 1] in '$?':
                out.append(look(word[i + 1]))
                i += 2
                continue
            elif isname(word[i + 1]):
                j = i + 1
                while j < n and isname(word[j]):
                    j += 1
                out.append(look(word[i + 1:j]))
                i = j
                continue
        out.append(word[i])
        i += 1
    return ''.join(out)


def accept(quote, word, expanded, argv, pid):
    expanded = expanded.replace(PID, str(pid))
    if quote == 'dq':
        return argv == [expanded]
    if quote == 'sq':
        return argv == [word]
    return argv == [expanded] or argv == expanded.split() or (expanded == '' and argv == [])


def run_env(job):
    env_i, batch = job
    label, a, ab, b = ENVS[env_i]
    d = common.fresh_case_dir()
    out = []
    try:
        env = {'A': a, 'AB': ab, 'B': b}

        def one(c):
            r = common.run_cicada(['-c', c['line']], d, env=env, timeout=15)
            recs = [x for x in r.records if x.get('k') == 'argv']
            if r.timed_out:
                return ('hang', None)
            if len(recs) != 1:
                return ('records-%d' % len(recs), [x['argv'] for x in recs])
            ok = accept(c['quote'], c['word'], c['expanded'], recs[0]['argv'], recs[0]['ppid'])
            return ('ok' if ok else 'argv', recs[0]['argv'])

        line = ' ; '.join(c['line'] for c in batch)
        r = common.run_cicada(['-c', line], d, env=env, timeout=40)
        recs = [x for x in r.records if x.get('k') == 'argv']
        if not r.timed_out and len(recs) == len(batch) and all(
                accept(c['quote'], c['word'], c['expanded'], x['argv'], x['ppid']) for c, x in zip(batch, recs)):
            return [(env_i, c, 'ok', x['argv']) for c, x in zip(batch, recs)]
        for c in batch:
            k, obs = one(c)
            out.append((env_i, c, k, obs))
        return out
    finally:
        common.drop_case_dir(d)


def run(rep, tier):
    rep.rule = ('all words of 1..N segments over %r x {unquoted, double-quoted, single-quoted} x nine variable environments x {exported, shell-local}; '
                'non-trivial = the word contains at least one reference; distinct = distinct (line, environment)' % (SEGS,))
    rep.assumptions = [
        'names A, AB, B, U only; values of the nine environments as listed in the engine; words longer than the bound are not explored',
        'unquoted results are accepted as one argument or split at blanks (the statement is silent); cwd is empty so that a value containing * matches nothing',
        'termination is decided by the sweep watchdog (2 s per sub-millisecond case, confirmed alone with a 4x limit)',
    ]
    res = common.run_engine('C10', tier)
    rep.merge_engine(res)
    envs = range(len(ENVS)) if tier == 'thorough' else [0, 1, 5, 8]
    jobs = []
    ncases = 0
    for e in envs:
        vars_ = {'A': ENVS[e][1], 'AB': ENVS[e][2], 'B': ENVS[e][3]}
        cases = []
        for n in (1, 2):
            for segs in itertools.product(SEGS, repeat=n):
                word = ''.join(segs)
                exp = reference(word, vars_)
                for q, fmt in (('unq', 'vh-argv %s'), ('dq', 'vh-argv "%s"'), ('sq', "vh-argv '%s'")):
                    cases.append({'line': fmt % word, 'word': word, 'quote': q, 'expanded': exp})
        ncases += len(cases)
        for i in range(0, len(cases), 30):
            jobs.append((e, cases[i:i + 30]))
    for sub in common.pmap(run_env, jobs, chunk=1):
        for env_i, c, kind, obs in sub:
            rep.evaluations += 1
            rep.transitions += 1
            if kind == 'ok':
                rep.outcome('exec-ok')
                rep.traces_validated += 1
            else:
                rep.outcome('exec-' + kind)
                rep.violation('exec-%s:%s:%s' % (kind, c['quote'], ENVS[env_i][0]),
                              {'line': c['line'], 'env': dict(zip(('label', 'A', 'AB', 'B'), ENVS[env_i]))},
                              {'argv': [c['expanded'] if c['quote'] != 'sq' else c['word']]}, {'argv': obs},
                              repro='A=%s AB=%s B=%s cicada -c %s' % tuple(common.shquote(x) for x in (ENVS[env_i][1], ENVS[env_i][2], ENVS[env_i][3], c['line'])))
    rep.bounds.append({'layer': 'real binary -c: words of <= 2 segments x 3 quote forms x %d environments (exported)' % len(list(envs)), 'cases': ncases, 'complete': True})
    if rep.traces_validated < 500:
        rep.machinery.append('vacuity guard: too few executed cases agreed')
