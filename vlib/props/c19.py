"""C19 — arithmetic lines evaluate with standard precedence and never crash the shell.

in-process (Rust engine, harness/src/props/c19.rs): all expression trees with k operators over a
boundary operand set in 4 renderings against an exact reference evaluator; every string up to
length L over the arithmetic alphabet for classification, value and crash freedom.
process level (here): all trees with k <= 1 (thorough k <= 2 over six operands) through
`cicada -c '<expr>'` and `vh-argv $(<expr>)`, compared with an independent Python evaluator."""
import itertools
import os

from .. import common

V_ALL = ["0", "1", "2", "3", "7", "2147483648", "9223372036854775807", "62", "63", "64", "70", "1.5", "0.25", "2.",
         "99999999999999999999"]
V_SIX = ["0", "2", "3", "63", "9223372036854775807", "1.5"]
OPS = "+-*/^"
PREC = {'+': 1, '-': 1, '*': 2, '/': 2, '^': 3}
I64 = (-(2 ** 63), 2 ** 63 - 1)


def trees(k, vals):
    if k == 0:
        for v in vals:
            yield v
        return
    for l in range(k):
        for a in trees(l, vals):
            for op in OPS:
                for b in trees(k - 1 - l, vals):
                    yield (a, op, b)


def render(t):
    if isinstance(t, str):
        return t
    a, op, b = t
    p = PREC[op]
    ra = op == '^'
    sa, sb = render(a), render(b)
    if not isinstance(a, str) and (PREC[a[1]] < p or (PREC[a[1]] == p and ra)):
        sa = '(' + sa + ')'
    if not isinstance(b, str) and (PREC[b[1]] < p or (PREC[b[1]] == p and not ra)):
        sb = '(' + sb + ')'
    return '%s %s %s' % (sa, op, sb)


def has_dot(t):
    return '.' in t if isinstance(t, str) else has_dot(t[0]) or has_dot(t[2])


def ev_int(t):
    if isinstance(t, str):
        v = int(t)
        return v if I64[0] <= v <= I64[1] else None
    a, b = ev_int(t[0]), ev_int(t[2])
    if a is None or b is None:
        return None
    op = t[1]
    if op == '+':
        v = a + b
    elif op == '-':
        v = a - b
    elif op == '*':
        v = a * b
    elif op == '/':
        if b == 0:
            return None
        v = abs(a) // abs(b)
        if (a < 0) != (b < 0):
            v = -v
    else:
        if b < 0:
            return None
        if abs(a) > 1 and b > 64:
            return None
        v = a ** b
    return v if I64[0] <= v <= I64[1] else None


def ev_float(t):
    if isinstance(t, str):
        return float(t)
    a, b = ev_float(t[0]), ev_float(t[2])
    if a is None or b is None:
        return None
    op = t[1]
    try:
        if op == '+':
            return a + b
        if op == '-':
            return a - b
        if op == '*':
            return a * b
        if op == '/':
            return a / b
        return a ** b
    except (ZeroDivisionError, OverflowError, ValueError):
        return None  # python raises where IEEE yields inf/nan: leave unspecified here (covered in-process)


def expected(t):
    if has_dot(t):
        v = ev_float(t)
        if v is None or isinstance(v, complex):
            return None
        return ('f', v)
    v = ev_int(t)
    return None if v is None else ('i', v)


def same(exp, text):
    text = text.strip()
    if exp[0] == 'i':
        return text == str(exp[1])
    try:
        got = float(text)
    except ValueError:
        return False
    return got == exp[1] or (got != got and exp[1] != exp[1])


def exec_case(t):
    d = common.fresh_case_dir()
    try:
        line = render(t)
        exp = expected(t)
        out = []
        r = common.run_cicada(['-c', line], d, timeout=10)
        if r.timed_out:
            return ('hang', line, 'timeout', exp)
        if r.status in (101, 134, 139) or b'panicked at' in r.err:
            return ('panic', line, r.err[-300:].decode('utf-8', 'replace'), exp)
        if exp is not None:
            if r.status != 0 or not same(exp, r.out.decode()):
                return ('wrong-value:-c', line, 'status=%s stdout=%r stderr=%r' % (r.status, r.out, r.err[-200:]), exp)
        if '(' in line:
            # `$(` directly followed by a parenthesised term is not a form the statement covers
            return ('ok' if exp is not None else 'ok-unspecified', line, r.out.decode('utf-8', 'replace').strip(), exp)
        r2 = common.run_cicada(['-c', 'vh-argv $(%s)' % line], d, timeout=10)
        if r2.timed_out:
            return ('hang', line, 'timeout in $(...)', exp)
        if r2.status in (101, 134, 139) or b'panicked at' in r2.err:
            return ('panic', 'vh-argv $(%s)' % line, r2.err[-300:].decode('utf-8', 'replace'), exp)
        if exp is not None:
            av = r2.argvs()
            if len(av) != 1 or len(av[0]) != 1 or not same(exp, av[0][0]):
                return ('wrong-value:substitution', 'vh-argv $(%s)' % line, 'argv=%r stderr=%r' % (av, r2.err[-200:]), exp)
        return ('ok' if exp is not None else 'ok-unspecified', line, r.out.decode('utf-8', 'replace').strip(), exp)
    finally:
        common.drop_case_dir(d)


def run(rep, tier):
    rep.rule = ('all expression trees with k operators over the operand set / all strings over the arithmetic alphabet up to the stated '
                'length; non-trivial = the statement defines the value (every literal and intermediate result fits i64, no division by zero, '
                'no negative exponent; or float mode), distinct = distinct tree / string')
    rep.assumptions = [
        'operands limited to the listed boundary set; trees to the stated operator counts; strings to the stated length',
        'values that overflow 64 bits, divide by zero or use a negative exponent are unspecified by the statement: only crash freedom is checked',
        'signed literals directly after an operator (1 - -1, 2^-1) are outside the statement: only crash freedom is checked',
        'cicada is built with overflow checks on (dev profile), so a wrapped overflow that would pass silently in release shows as a panic',
    ]
    res = common.run_engine('C19', tier)
    rep.merge_engine(res)
    cases = list(trees(1, V_ALL))
    if tier == 'thorough':
        cases += list(trees(2, V_SIX))
    else:
        cases += list(trees(2, ["2", "3", "1.5"]))
    results = common.pmap(exec_case, cases, chunk=16)
    for kind, line, info, exp in results:
        rep.evaluations += 1
        rep.transitions += 2
        if kind.startswith('ok'):
            rep.outcome('binary-' + kind)
            if kind == 'ok':
                rep.traces_validated += 1
        else:
            rep.outcome('binary-' + kind)
            rep.violation('binary:' + kind, {'line': line}, 'value %r' % (exp,), info, repro='cicada -c %s' % common.shquote(line))
    rep.bounds.append({'layer': 'real binary (-c and $(...))', 'cases': len(cases), 'complete': True})
    if rep.outcomes.get('value-ok', 0) < 1000 or rep.outcomes.get('unspecified-value', 0) == 0:
        rep.machinery.append('vacuity guard: expected outcome classes missing')
