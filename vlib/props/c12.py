"""C12 — brace, range, tilde and filename expansion yield exactly the specified words.

in-process (Rust engine harness/src/props/c12.rs): every well-formed brace term over {a b { } ,} up to length 7
(thorough 9; nesting/alternatives/groups bounded) in four position templates and all pairs of short terms, all
ranges {m..n[..s]} over -3..3 (-5..5) x steps {none,0,1,2,3,7} with and without surrounding text, tilde forms,
and every population subset of {a ab b .h 'a b' d/ d/e .k/ .k/e} x eleven patterns (a hidden directory must not be
matched by a `*` component), planned by the real code and compared
with reference expanders.
process level (here): the short brace terms, small ranges, tilde forms and every population x pattern executed by
the real binary (helper argv must equal the reference)."""
import itertools
import os

from .. import common

POP = ["a", "ab", "b", ".h", "a b", "d", "d/e", ".k", ".k/e"]
PATTERNS = ["*", "a*", "*b", ".*", "d/*", "x*", "'*'", '"a*"', "*a*", "a*b", "*/e"]


def brace_parse(s):
    pos = 0

    def term(depth):
        nonlocal pos
        out = []
        while pos < len(s):
            c = s[pos]
            if c in 'ab':
                out.append(c)
                pos += 1
            elif c == '{':
                pos += 1
                alts = []
                while True:
                    t = term(depth + 1)
                    if t is None:
                        return None
                    alts.append(t)
                    if pos >= len(s):
                        return None
                    if s[pos] == ',':
                        pos += 1
                        continue
                    if s[pos] == '}':
                        pos += 1
                        break
                    return None
                if len(alts) < 2:
                    return None
                out.append(alts)
            elif c in ',}':
                return out if depth > 0 else None
            else:
                return None
        return out if depth == 0 else None
    t = term(0)
    if t is None or pos != len(s):
        return None
    return t


def brace_expand(atoms):
    if not atoms:
        return ['']
    first, rest = atoms[0], atoms[1:]
    tails = brace_expand(rest)
    heads = [first] if isinstance(first, str) else [x for a in first for x in brace_expand(a)]
    return [h + t for h in heads for t in tails]


def glob_match(p, n):
    if not p:
        return not n
    if p[0] == '*':
        return any(glob_match(p[1:], n[i:]) for i in range(len(n) + 1))
    return bool(n) and n[0] == p[0] and glob_match(p[1:], n[1:])


def glob_ref(present, pattern):
    if pattern[0] in '\'"':
        return [pattern[1:-1]]
    # component by component: a literal component names itself, a component with `*` matches non-hidden names
    # (hidden ones only when it is written `.*...`), in every position of the path
    pcomps = pattern.split('/')
    out = []
    for e in present:
        ecomps = e.split('/')
        if len(ecomps) != len(pcomps):
            continue
        ok = True
        for p, n in zip(pcomps, ecomps):
            if '*' not in p:
                ok = ok and p == n
            else:
                ok = ok and not (n.startswith('.') and not p.startswith('.*')) and glob_match(p, n)
        if ok:
            out.append(e)
    return sorted(out, key=lambda x: x.encode()) or [pattern]


def range_ref(m, n, s):
    step = 1 if not s else s
    out = []
    v = m
    while (v <= n) if m <= n else (v >= n):
        out.append(str(v))
        v += step if m <= n else -step
    return out


def run_dir(job):
    mask, cases = job
    d = common.fresh_case_dir()
    try:
        for i, e in enumerate(POP):
            if mask & (1 << i):
                if e in ('d', '.k'):
                    os.makedirs(os.path.join(d, e), exist_ok=True)
                else:
                    os.makedirs(os.path.dirname(os.path.join(d, e)), exist_ok=True)
                    with open(os.path.join(d, e), 'w') as f:
                        f.write('x')
        env = {'HOME': '/HOMEMARK', 'VH_LOG': os.path.join(d, '..', 'vh-%d.log' % os.getpid())}
        try:
            os.unlink(env['VH_LOG'])
        except OSError:
            pass

        def strip(v):
            return [x for x in v if x != '']
        line = ' ; '.join(c['line'] for c in cases)
        r = common.run_cicada(['-c', line], d, env=env, timeout=30)
        recs = [x['argv'] for x in r.records if x.get('k') == 'argv']
        if not r.timed_out and len(recs) == len(cases) and all(strip(a) == strip(c['expect']) for a, c in zip(recs, cases)):
            os.unlink(env['VH_LOG'])
            return [(c, 'ok', a) for c, a in zip(cases, recs)]
        out = []
        for c in cases:
            try:
                os.unlink(env['VH_LOG'])
            except OSError:
                pass
            r = common.run_cicada(['-c', c['line']], d, env=env, timeout=15)
            recs = [x['argv'] for x in r.records if x.get('k') == 'argv']
            if r.timed_out:
                out.append((c, 'hang', None))
            elif len(recs) != 1:
                out.append((c, 'records-%d' % len(recs), recs))
            elif strip(recs[0]) != strip(c['expect']):
                out.append((c, 'words', recs[0]))
            else:
                out.append((c, 'ok', recs[0]))
        try:
            os.unlink(env['VH_LOG'])
        except OSError:
            pass
        return out
    finally:
        common.drop_case_dir(d)


def run(rep, tier):
    rep.rule = ('all well-formed brace terms over {a b { } ,} up to the stated length/nesting, all ranges over the stated interval x steps x surrounding text, '
                'tilde forms, every population subset x pattern; non-trivial = case whose expansion differs from the word itself or must stay untouched because of quotes; distinct = distinct line (and population)')
    rep.assumptions = [
        'brace alphabet {a b { } ,}; a group needs at least two alternatives (a single-alternative group is passed through and not judged); ~name and patterns ending in / are outside the statement',
        'empty words produced by empty alternatives may be kept or dropped (compared after removing empty arguments)',
        'glob reference: * matches any run of characters except /, hidden entries only for patterns starting with .*, byte-wise sorted',
    ]
    res = common.run_engine('C12', tier)
    rep.merge_engine(res)
    maxlen = 6 if tier == 'thorough' else 5
    misc = []
    for l in range(3, maxlen + 1):
        for t in itertools.product('ab{},', repeat=l):
            t = ''.join(t)
            p = brace_parse(t)
            if p is None or not any(isinstance(x, list) for x in p):
                continue
            misc.append({'line': 'vh-argv x %s y' % t, 'expect': ['x'] + brace_expand(p) + ['y'], 'kind': 'brace'})
    lim = 2 if tier == 'thorough' else 1
    for m in range(-lim, lim + 1):
        for n in range(-lim, lim + 1):
            for s in (None, 0, 1, 2, 7):
                for pre, post in (('', ''), ('p', 'q')):
                    w = '%s{%d..%d%s}%s' % (pre, m, n, '' if s is None else '..%d' % s, post)
                    misc.append({'line': 'vh-argv %s' % w, 'expect': [pre + v + post for v in range_ref(m, n, s)], 'kind': 'range'})
    for w, e in (('~', '/HOMEMARK'), ('~/x', '/HOMEMARK/x'), ('a~', 'a~'), ("'~'", '~'), ('"~"', '~'), ('"~/x"', '~/x')):
        misc.append({'line': 'vh-argv x %s' % w, 'expect': ['x', e], 'kind': 'tilde'})
    jobs = [(0, misc[i:i + 25]) for i in range(0, len(misc), 25)]
    n = len(misc)
    for mask in range(1 << len(POP)):
        if mask & (1 << 6) and not mask & (1 << 5):
            continue
        if mask & (1 << 8) and not mask & (1 << 7):
            continue
        present = [e for i, e in enumerate(POP) if mask & (1 << i)]
        cases = [{'line': 'vh-argv %s' % pat, 'expect': glob_ref(present, pat), 'kind': 'glob', 'population': present} for pat in PATTERNS]
        jobs.append((mask, cases))
        n += len(cases)
    for sub in common.pmap(run_dir, jobs, chunk=1):
        for c, k, obs in sub:
            rep.evaluations += 1
            rep.transitions += 1
            if k == 'ok':
                rep.outcome('exec-ok:' + c['kind'])
                rep.traces_validated += 1
            else:
                rep.outcome('exec-' + k)
                rep.violation('exec-%s:%s%s' % (k, c['kind'], (':' + c['line'].split(' ', 1)[1]) if c['kind'] == 'glob' else ''), {'line': c['line'], 'population': c.get('population')}, c['expect'], obs,
                              repro='cicada -c %s' % common.shquote(c['line']))
    rep.bounds.append({'layer': 'real binary -c: short brace terms, small ranges, tilde forms, all populations x patterns', 'cases': n, 'complete': True})
    if rep.traces_validated < 300:
        rep.machinery.append('vacuity guard: too few executed cases agreed')
