"""C09 — variables, exported environment and working directory follow the scoping rules.

Explicit-state BFS over the real shell: a state is reached by replaying its shortest history in a fresh real cicada
process; states are deduplicated by the reference model's state (name -> value x exported?, cwd, previous dir); every
operation is executed from every distinct state (quick: to depth 3; thorough: to the fixpoint of the finite state
space). After each operation the real shell is probed: a helper records its argv ("$A|$B|$PWD" expansions), its
environment (what children see), its cwd, a relative redirection must land in the model's cwd, and a final `cd -` must
lead to the model's previous directory (so that state the shell only remembers is observed too); the status of a
failed cd must be non-zero."""
import os

from .. import common

# (text, kind, payload)
VAR_OPS = [
    ("A=1", 'assign', ('A', '1')),
    ("A='x y'", 'assign', ('A', 'x y')),
    ("A=", 'assign', ('A', '')),
    ("A=a=b:c", 'assign', ('A', 'a=b:c')),
    ("A='{a,b}'", 'assign', ('A', '{a,b}')),
    ("A='`vh-mark RAN 0`$(vh-mark RAN 0)'", 'assign', ('A', '`vh-mark RAN 0`$(vh-mark RAN 0)')),
    ("export A=3", 'export', ('A', '3')),
    ("unset A", 'unset', 'A'),
    ("A=9 vh-argv PREFIX", 'prefix', ('A', '9')),
    ("read A <<< 'p q'", 'read', (('A',), 'p q')),
    ("read A B <<< 'p q r'", 'read', (('A', 'B'), 'p q r')),
    ("read A B C <<< 'p'", 'read', (('A', 'B', 'C'), 'p')),            # fewer words than names: the others become empty
    ("read B A <<< ' p   q '", 'read', (('B', 'A'), ' p   q ')),       # runs of blanks separate fields
    ("B=2", 'assign', ('B', '2')),
    ("export B=4", 'export', ('B', '4')),
    ("unset B", 'unset', 'B'),
    ("B=7 vh-argv PREFIX", 'prefix', ('B', '7')),
    ("B=6 vh-argv PREFIX | vh-argv NEXT", 'prefix', ('B', '6', 'pipeline')),     # the prefix belongs to the first command of the pipeline only
]
SHALLOW_OPS = ("A='{a,b}'", "A='`vh-mark RAN 0`$(vh-mark RAN 0)'")
# quick tier only: these are applied from the states within one step of the start and the states they lead to are
# observed but not expanded (thorough: from every state, expanded like any other)
SHALLOW_QUICK = ("read A B C <<< 'p'", "read B A <<< ' p   q '", "B=6 vh-argv PREFIX | vh-argv NEXT")
CD_OPS = [("cd ROOT/d1", 'cd', 'ROOT/d1'), ("cd d2", 'cd', 'd2'), ("cd ..", 'cd', '..'), ("cd ln", 'cd', 'ln'), ("cd", 'cd', None),
          ("cd -", 'cd', '-'), ("cd nx", 'cd', 'nx'), ("cd f", 'cd', 'f'), ("cd ROOT/d1/d2", 'cd', 'ROOT/d1/d2')]
OPS = VAR_OPS + CD_OPS


class Model:
    def __init__(self):
        self.vars = {}      # name -> (value, exported)
        self.cwd = 'ROOT'
        self.prev = ''
        self.pwd = 'ROOT'   # value of $PWD (exported by the harness initially)

    def key(self):
        return (tuple(sorted(self.vars.items())), self.cwd, self.prev, self.pwd)

    def copy(self):
        m = Model()
        m.vars = dict(self.vars)
        m.cwd, m.prev, m.pwd = self.cwd, self.prev, self.pwd
        return m

    def set(self, name, value):
        if name not in ('A', 'B'):
            return      # no operation and no probe reads any other name: not part of the state
        exported = self.vars.get(name, (None, False))[1]
        self.vars[name] = (value, exported)

    def resolve(self, target):
        """model of the directory tree: ROOT/{d1/{d2}, ln -> d1/d2, f}; returns new cwd or None"""
        if target is None:
            return 'ROOT'     # HOME
        if target == '-':
            return self.prev or None
        path = target if target.startswith('ROOT') else self.cwd + '/' + target
        parts = []
        for p in path.split('/'):
            if p == '..':
                if len(parts) > 1:
                    parts.pop()
                elif parts == ['ROOT']:
                    return 'ABOVE'
            elif p and p != '.':
                parts.append(p)
            if parts == ['ROOT', 'ln']:
                parts = ['ROOT', 'd1', 'd2']
        p = '/'.join(parts)
        return p if p in ('ROOT', 'ROOT/d1', 'ROOT/d1/d2') else None

    def apply(self, op):
        """returns (expected_status_zero, prefix_env or None)"""
        text, kind, payload = op
        if kind == 'assign':
            self.set(*payload)
        elif kind == 'export':
            self.vars[payload[0]] = (payload[1], True)
        elif kind == 'unset':
            self.vars.pop(payload, None)
        elif kind == 'prefix':
            return True, payload
        elif kind == 'read':
            names, line = payload
            fields = line.split()
            for i, n in enumerate(names):
                if i < len(names) - 1:
                    self.set(n, fields[i] if i < len(fields) else '')
                else:
                    self.set(n, ' '.join(fields[i:]))
        elif kind == 'cd':
            new = self.resolve(payload)
            if new is None:
                return False, None
            if new == 'ABOVE':
                return None, None     # leaves the generated tree: not judged
            if new != self.cwd:
                self.prev = self.cwd
                self.pwd = new
            self.cwd = new
        return True, None


def make_tree(d):
    root = os.path.join(d, 'root')
    os.makedirs(os.path.join(root, 'd1', 'd2'))
    os.symlink('d1/d2', os.path.join(root, 'ln'))
    with open(os.path.join(root, 'f'), 'w') as f:
        f.write('x')
    return os.path.realpath(root)


def run_history(hist):
    """hist: list of op indices. Returns observations after the last op."""
    d = common.fresh_case_dir()
    try:
        root = make_tree(d)
        texts = [OPS[i][0].replace('ROOT', root) for i in hist]
        last = texts[-1] if texts else 'vh-argv NOOP'
        line = ' ; '.join(texts[:-1] + [last, 'vh-mark S 0 $?', 'vh-argv P "$A|$B|$PWD"', 'vh-io r > relfile.out', 'cd -', 'vh-argv Q "$PWD"'])
        env = {'HOME': root, 'PWD': root}
        r = common.run_cicada(['-c', line], d, cwd=root, env=env, stdin=b'', timeout=20)
        obs = {'timed_out': r.timed_out, 'status_last': None, 'probe': None, 'prefix': None, 'rel': None, 'back': None, 'err': r.err[-200:].decode('utf-8', 'replace')}
        for x in r.records:
            if x.get('k') == 'mark' and x['argv'][0] == 'S':
                obs['status_last'] = x['argv'][2]
            if x.get('k') == 'argv' and x['argv'][:1] == ['P']:
                obs['probe'] = {'text': x['argv'][1] if len(x['argv']) > 1 else None, 'cwd': x['cwd'].replace(root, 'ROOT'),
                                'env': {k: x['env'].get(k) for k in ('A', 'B', 'PWD')}, 'dups': [k for k in x.get('env_dups', []) if k in ('A', 'B', 'PWD')]}
            if x.get('k') == 'argv' and x['argv'][:1] == ['Q']:
                # where `cd -` leads from here: makes the shell's remembered previous directory observable
                obs['back'] = {'cwd': x['cwd'].replace(root, 'ROOT'), 'text': (x['argv'][1] if len(x['argv']) > 1 else '').replace(root, 'ROOT')}
            if x.get('k') == 'argv' and x['argv'][:1] == ['PREFIX']:
                obs['prefix'] = {k: x['env'].get(k) for k in ('A', 'B')}
            if x.get('k') == 'argv' and x['argv'][:1] == ['NEXT']:
                obs['next'] = {k: x['env'].get(k) for k in ('A', 'B')}
        for base in ('ROOT', 'ROOT/d1', 'ROOT/d1/d2'):
            if os.path.exists(os.path.join(base.replace('ROOT', root), 'relfile.out')):
                obs['rel'] = base
        if obs['probe'] and obs['probe']['text']:
            obs['probe']['text'] = obs['probe']['text'].replace(root, 'ROOT')
        if obs['probe'] and obs['probe']['env'].get('PWD'):
            obs['probe']['env']['PWD'] = obs['probe']['env']['PWD'].replace(root, 'ROOT')
        return hist, line.replace(root, 'ROOT'), obs
    finally:
        common.drop_case_dir(d)


def expected_probe(m, prefix):
    def val(n):
        return m.vars.get(n, ('', False))[0]
    exp_env = {n: (m.vars[n][0] if n in m.vars and m.vars[n][1] else None) for n in ('A', 'B')}
    exp_env['PWD'] = m.pwd
    return {'text': '%s|%s|%s' % (val('A'), val('B'), m.pwd), 'cwd': m.cwd, 'env': exp_env, 'dups': []}


def run(rep, tier):
    max_depth = 99 if tier == 'thorough' else 4
    rep.rule = ('BFS over reference-model states; every one of the %d operations executed from every distinct state reached within depth %s; '
                'non-trivial = transition that changes the model state; distinct = distinct (state, operation)' % (len(OPS), 'fixpoint' if tier == 'thorough' else max_depth))
    rep.assumptions = [
        'names A, B; the listed values (blank, empty, = and :), a generated tree ROOT/{d1/d2, ln -> d1/d2, f}; HOME = ROOT',
        'abstraction: equal reference-model state (values, exported flags, cwd, previous dir, $PWD) implies equal futures; every state is reached by replaying its shortest history in a fresh shell process',
        'leaving the generated tree with `cd ..` from ROOT is not judged',
    ]
    init = Model()
    seen = {init.key(): []}
    frontier = [(init, [])]
    depth = 0
    ntrans = 0
    while frontier and depth < max_depth:
        depth += 1
        jobs = []
        meta = []
        for m, hist in frontier:
            for oi, op in enumerate(OPS):
                if (op[0] in SHALLOW_OPS or (tier != 'thorough' and op[0] in SHALLOW_QUICK)) and len(hist) > 1:
                    continue      # values with braces / substitutions: applied from the states within one step of the start only
                m2 = m.copy()
                ok, prefix = m2.apply(op)
                if ok is None:
                    continue
                jobs.append(hist + [oi])
                meta.append((m, m2, ok, prefix, op))
        results = common.pmap(run_history, jobs, chunk=6)
        nxt = []
        def judge(obs, exp, ok, prefix, m2):
            if obs['timed_out']:
                return 'hang'
            if obs['probe'] is None:
                return 'probe-not-run'
            if obs['probe']['text'] != exp['text']:
                return 'expansion-view'
            if obs['probe']['env'] != exp['env'] or obs['probe']['dups']:
                return 'child-environment'
            if obs['probe']['cwd'] != exp['cwd']:
                return 'child-cwd'
            if obs['rel'] != exp['cwd']:
                return 'relative-redirection-dir'
            if ok and obs['status_last'] != '0':
                return 'nonzero-status'
            if not ok and obs['status_last'] == '0':
                return 'failed-cd-zero-status'
            back = m2.prev if m2.prev else m2.cwd
            if obs['back'] is None or obs['back']['cwd'] != back or obs['back']['text'] != (back if m2.prev else m2.pwd):
                return 'previous-directory'
            if prefix is not None:
                want = {n: (m2.vars[n][0] if n in m2.vars and m2.vars[n][1] else None) for n in ('A', 'B')}
                want[prefix[0]] = prefix[1]
                if obs['prefix'] != want:
                    return 'prefix-assignment-env'
                if len(prefix) == 3:
                    want[prefix[0]] = m2.vars[prefix[0]][0] if prefix[0] in m2.vars and m2.vars[prefix[0]][1] else None
                    if obs.get('next') != want:
                        return 'prefix-assignment-reaches-next-stage'
            return None
        for (hist, line, obs), (m, m2, ok, prefix, op) in zip(results, meta):
            ntrans += 1
            rep.evaluations += 1
            rep.transitions += 1
            if m2.key() != m.key():
                rep.nontrivial += 1
            exp = expected_probe(m2, prefix)
            dev = judge(obs, exp, ok, prefix, m2)
            if dev is not None:
                # believed only if it shows again when the history is replayed alone
                _, line, obs = run_history(hist)
                dev = judge(obs, exp, ok, prefix, m2)
                if dev is None:
                    rep.outcome('unreproduced-deviation')
            if dev is None:
                rep.outcome('ok:' + op[1])
                rep.traces_validated += 1
                if m2.key() not in seen:
                    seen[m2.key()] = hist
                    if op[0] not in SHALLOW_OPS and not (tier != 'thorough' and op[0] in SHALLOW_QUICK):       # states reached through those values are observed but not expanded further
                        nxt.append((m2, hist))
            else:
                rep.outcome('deviation:' + dev)
                st = 'exported' if (op[1] in ('assign', 'prefix', 'read', 'unset') and any(v[1] for v in m.vars.values())) else 'plain'
                rep.violation('%s:%s:%s' % (dev, op[1], st), {'line': line, 'history': [OPS[i][0] for i in hist]}, exp,
                              {k: obs.get(k) for k in ('probe', 'prefix', 'next', 'rel', 'back', 'status_last', 'err')}, repro='cd ROOT && cicada -c %s' % common.shquote(line))
        frontier = nxt
        rep.bounds.append({'layer': 'BFS depth %d' % depth, 'transitions': len(jobs), 'new_states': len(nxt), 'complete': True})
    rep.states = len(seen)
    if frontier and tier == 'thorough':
        rep.cap_hit = True
    rep.extra['fixpoint_reached'] = not frontier
    rep.sample({'history': [OPS[i][0] for i in (list(seen.values())[len(seen) // 2])]})
    if rep.states < 20:
        rep.machinery.append('vacuity guard: fewer than 20 model states reached')
