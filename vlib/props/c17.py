"""C17 — aliases replace exactly the command word, once, and can be listed and removed.

Explicit-state BFS over the alias table (two names x six values + absent = 49 states) on the real binary, to the
fixpoint: every operation (define / redefine in both quote kinds, unalias) from every state; after each operation
the uses `n r`, `m.x-1 r`, `vh-argv a | n r`, `vh-mark 1 0 ; n r`, `vh-mark 1 0 && n r`, `vh-argv n` are executed.
Oracle (differential, no hand-written expectation): a use must behave exactly like the line obtained by writing the
alias value in place of the command word, run in a fresh shell without aliases (same helper records, same status);
the output of `alias`, fed back to a fresh shell, must recreate the same table; `alias NAME` prints that one
definition; `unalias NAME` removes exactly NAME."""
import os

from .. import common

NAMES = ['n', 'm.x-1']
VALUES = ['vh-argv -x', 'vh-argv "a b"', "vh-argv 'q'", 'n -y', 'm.x-1 z', 'vh-argv a | vh-argv2']
USES = [('{} r', 'head'), ('vh-argv a | {} r', 'after-pipe'), ('vh-mark 1 0 ; {} r', 'after-semicolon'),
        ('vh-mark 1 0 && {} r', 'after-and'), ('vh-argv {} r', 'non-first-word'),
        # arguments that are themselves alias names (after an aliased and after a plain command word)
        ('{} n m.x-1', 'head-with-alias-named-arguments'), ('vh-argv a | {} m.x-1 n', 'after-pipe-with-alias-named-arguments'),
        ('vh-mark 1 1 || {} r', 'after-or'), ('vh-mark 1 0 ;{} r', 'after-semicolon-tight'), ('{} r > f1', 'head-with-redirection'),
        ('{} r 2>&1 | vh-argv2 z', 'head-of-pipeline-with-redirection'),
        # the same alias as the command word of two stages of one pipeline: "once" is per command word, not per line
        ('{} r | {} s', 'two-stages-same-alias')]


EXTRA_USES = ('after-or', 'after-semicolon-tight', 'head-with-redirection', 'head-of-pipeline-with-redirection', 'two-stages-same-alias')


def define(name, value, q):
    return 'alias %s=%s%s%s' % (name, q, value, q)


def ops():
    out = []
    for name in NAMES:
        for v in VALUES:
            for q in ("'", '"'):
                if q in v:
                    continue
                out.append(('define', name, v, q))
        out.append(('unalias', name, None, None))
    return out


def op_text(op):
    kind, name, v, q = op
    return define(name, v, q) if kind == 'define' else 'unalias %s' % name


def recs_of(r):
    # stages of one pipeline run concurrently: the order of their records is not defined, compare as a sorted list
    return sorted((x.get('k'), x.get('name'), tuple(x.get('argv', []))) for x in r.records if x.get('k') in ('argv', 'mark'))


_ref_cache = {}


def reference_use(line):
    """the substituted line in a fresh shell without aliases"""
    if line not in _ref_cache:
        d = common.fresh_case_dir()
        try:
            r = common.run_cicada(['-c', line + ' ; vh-mark S 0 $?'], d, stdin=b'', timeout=20)
            _ref_cache[line] = (recs_of(r), r.timed_out)
        finally:
            common.drop_case_dir(d)
    return _ref_cache[line]


def run_transition(job):
    hist, table_after = job
    d = common.fresh_case_dir()
    try:
        texts = [op_text(o) for o in hist]
        results = {}
        # one shell per use so that a failing use cannot disturb the next one
        for name in NAMES:
            for tmpl, pos in USES:
                if pos in EXTRA_USES and name != NAMES[0] and os.environ.get('VERIF_TIER_C17') != 'thorough':
                    continue       # quick: the additional use forms with the first name only
                use = tmpl.replace('{}', name)
                line = ' ; '.join(texts + [use, 'vh-mark S 0 $?'])
                try:
                    os.unlink(os.path.join(d, 'vh.log'))
                except OSError:
                    pass
                r = common.run_cicada(['-c', line], d, stdin=b'', timeout=20)
                value = table_after.get(name)
                if pos == 'non-first-word' or value is None:
                    ref_line = use
                else:
                    ref_line = tmpl.replace('{}', value)
                results[(name, pos)] = (recs_of(r), r.timed_out, reference_use(ref_line), use, ref_line)
        # listing, single listing, round trip
        try:
            os.unlink(os.path.join(d, 'vh.log'))
        except OSError:
            pass
        r = common.run_cicada(['-c', ' ; '.join(texts + ['alias'])], d, stdin=b'', timeout=20)
        listing = r.out.decode('utf-8', 'replace')
        singles = {}
        for name in NAMES:
            rs = common.run_cicada(['-c', ' ; '.join(texts + ['alias %s' % name])], d, stdin=b'', timeout=20)
            singles[name] = (rs.out.decode('utf-8', 'replace'), rs.status)
        with open(os.path.join(d, 'relist.sh'), 'w') as f:
            f.write(listing if listing.endswith('\n') or not listing else listing + '\n')
            f.write('alias\n')
        r2 = common.run_cicada([os.path.join(d, 'relist.sh')], d, stdin=b'', timeout=20)
        relisting = r2.out.decode('utf-8', 'replace')
        # what do the re-created aliases do? (semantic round trip): use each name in the re-created shell
        reuse = {}
        for name in NAMES:
            with open(os.path.join(d, 'reuse.sh'), 'w') as f:
                f.write(listing if listing.endswith('\n') or not listing else listing + '\n')
                f.write('%s r\nvh-mark S 0 $?\n' % name)
            try:
                os.unlink(os.path.join(d, 'vh.log'))
            except OSError:
                pass
            r3 = common.run_cicada([os.path.join(d, 'reuse.sh')], d, stdin=b'', timeout=20)
            reuse[name] = recs_of(r3)
        return hist, results, listing, singles, relisting, reuse
    finally:
        common.drop_case_dir(d)


def run(rep, tier):
    os.environ['VERIF_TIER_C17'] = tier
    rep.rule = ('BFS over the alias table (names %r, values %r) to the fixpoint; every define/redefine/unalias from every state, every use form after each; '
                'non-trivial = transition that changes the table; distinct = distinct (table, operation)' % (NAMES, VALUES))
    rep.assumptions = [
        'two names (one with . and -), six values (option, double-quoted blank, single-quoted word, self reference, reference to the other alias, pipeline)',
        'differential oracle: the use must equal the textually substituted line run in a fresh alias-free shell; a self/mutual reference therefore must end in "command not found" for the second name instead of looping',
        'order of the `alias` listing is not compared (sets of lines)',
    ]
    OPS = ops()
    init = {}
    key = lambda t: tuple(sorted(t.items()))
    seen = {key(init): []}
    frontier = [(init, [])]
    depth = 0
    while frontier:
        depth += 1
        jobs, meta = [], []
        for table, hist in frontier:
            for op in OPS:
                t2 = dict(table)
                if op[0] == 'define':
                    t2[op[1]] = op[2]
                else:
                    t2.pop(op[1], None)
                jobs.append((hist + [op], t2))
                meta.append((table, t2, op))
        nxt = []
        for (hist, results, listing, singles, relisting, reuse), (table, t2, op) in zip(common.pmap(run_transition, jobs, chunk=2), meta):
            rep.evaluations += 1
            rep.transitions += 1
            if key(t2) != key(table):
                rep.nontrivial += 1
            line = ' ; '.join(op_text(o) for o in hist)
            bad = False
            for (name, pos), (obs, to, (ref, rto), use, ref_line) in results.items():
                v = t2.get(name)
                vclass = 'absent' if v is None else {'vh-argv -x': 'option', 'vh-argv "a b"': 'dq-blank', "vh-argv 'q'": 'sq-word', 'n -y': 'ref-n', 'm.x-1 z': 'ref-m', 'vh-argv a | vh-argv2': 'pipeline'}[v]
                if to and not rto:
                    rep.violation('use-hangs:%s:%s' % (pos, vclass), {'line': line + ' ; ' + use}, {'like': ref_line}, 'hang', repro='cicada -c %s' % common.shquote(line + ' ; ' + use))
                    bad = True
                elif obs != ref:
                    rep.violation('use-differs:%s:%s' % (pos, vclass), {'line': line + ' ; ' + use, 'table': t2}, {'same as the line': ref_line, 'records': ref}, {'records': obs},
                                  repro='cicada -c %s' % common.shquote(line + ' ; ' + use))
                    bad = True
            want = sorted("alias %s='%s'" % (n, v) for n, v in t2.items())
            got = sorted(l for l in listing.splitlines() if l.strip())
            # the listing text itself is not prescribed; what is prescribed is that it recreates the table
            regot = sorted(l for l in relisting.splitlines() if l.strip())
            if len(got) != len(t2):
                rep.violation('listing-count', {'line': line + ' ; alias', 'table': t2}, want, got)
                bad = True
            elif regot != got:
                vs = sorted(set('sq' if "'" in v else 'dq' if '"' in v else 'plain' for v in t2.values()))
                rep.violation('listing-not-reusable:%s' % '+'.join(vs), {'line': line + ' ; alias', 'table': t2}, {'listing fed back gives the same listing': got}, {'re-listed': regot})
                bad = True
            else:
                for name in NAMES:
                    # semantic round trip: the re-created alias behaves like the original one
                    orig = results[(name, 'head')][0]
                    if reuse[name] != orig:
                        v = t2.get(name)
                        rep.violation('listing-recreates-different-alias:%s' % ('sq' if v and "'" in v else 'dq' if v and '"' in v else 'plain'),
                                      {'line': line + ' ; alias', 'table': t2, 'listing': listing}, {'use of %s after feeding the listing back' % name: orig}, reuse[name])
                        bad = True
                        break
            for name in NAMES:
                out, st = singles[name]
                if (name in t2) != (out.strip() != '' and st == 0):
                    rep.violation('single-listing:%s' % ('present' if name in t2 else 'absent'), {'line': line + ' ; alias ' + name, 'table': t2}, 'prints the definition iff defined', {'out': out, 'status': st})
                    bad = True
            if not bad:
                rep.outcome('ok:' + op[0])
                rep.traces_validated += 1
            else:
                rep.outcome('deviation')
            if key(t2) not in seen:
                seen[key(t2)] = hist
                nxt.append((t2, hist))
        rep.bounds.append({'layer': 'BFS depth %d' % depth, 'transitions': len(jobs), 'new_states': len(nxt), 'complete': True})
        frontier = nxt
        if tier == 'quick' and depth >= 2:
            break
    rep.states = len(seen)
    rep.extra['fixpoint_reached'] = not frontier
    rep.sample({'history': [op_text(o) for o in list(seen.values())[-1]], 'uses': [u[0].replace('{}', 'n') for u in USES]})
    if rep.states < 40:
        rep.machinery.append('vacuity guard: fewer than 40 alias-table states reached')
