"""C18 — history stores every submitted line verbatim, durably and injection-free.

ALL operation sequences of depth <= 2 (thorough 3) over {history add -t <k> TEXT (8 texts with ' " % _ \\ ; -- ) and
multi-byte characters), history (list), history PATTERN (5 patterns), history -p, history delete <rowid>} with every
split into shell processes (each operation in the same or in a new process) and three working-directory names
(plain, with a quote, with a percent sign) on one database file that the shell itself creates (one interactive start
on a pseudo-terminal). The rows are read back with an independent sqlite client. Interactive layer: all sequences of
up to 3 typed lines over {command, the same with a leading blank, another command, exact repeat} (up to 2, thorough 3,
also over commands that match one another as LIKE patterns or differ only in case) with
HISTORY_DELETE_DUPS 0 and 1. Oracle: reference row list (text byte-equal, submission order, leading-blank lines and
immediate repeats absent, delete removes exactly the named row, no operation errors out or loses rows)."""
import itertools
import os
import sqlite3

from .. import common, ptydrv

TEXTS = ['a', "it's", '"q"', '100%', 'a_b', 'c\\d', 'x;--', 'é)']
PATTERNS = ['a', '%', '_', "'", '\\']
CWDS = ['plain', "o'k", 'p%c']


def shell_word(t):
    if "'" not in t:
        return "'%s'" % t
    return '"%s"' % t


def make_db(d, cwd):
    """the shell creates the database itself: one interactive start and exit"""
    s = ptydrv.Session(d, cwd=cwd)
    ok = s.start()
    s.close()
    return ok and os.path.exists(os.path.join(d, 'history.sqlite'))


def read_rows(d):
    db = os.path.join(d, 'history.sqlite')
    c = sqlite3.connect(db)
    try:
        return c.execute('select rowid, inp, tsb, info from cicada_history order by tsb, rowid').fetchall()
    finally:
        c.close()


def like(pattern, text):
    """SQL LIKE '%pattern%' (documented: % matches anything, _ one character), case-insensitive for ASCII"""
    import re
    rx = ''.join('.*' if ch == '%' else '.' if ch == '_' else re.escape(ch) for ch in pattern)
    return re.search(rx, text, re.I | re.S) is not None


def run_history(job):
    cwd_name, ops = job
    d = common.fresh_case_dir()
    try:
        cwd = os.path.join(d, cwd_name)
        os.makedirs(cwd)
        if not make_db(d, cwd):
            return job, {'machinery': 'the shell did not create the history database'}
        env = {'HISTORY_FILE': os.path.join(d, 'history.sqlite')}
        model = []          # (text, stamp)
        stamp = 0
        results = []
        # group consecutive ops that share a process
        groups = []
        for op in ops:
            if op[-1] == 'new' or not groups:
                groups.append([op])
            else:
                groups[-1].append(op)
        for g in groups:
            for op in g:
                # each op in its own -c (same process semantics are exercised by joining with ;)
                pass
            parts = []
            expect = []
            for op in g:
                kind = op[0]
                if kind == 'add':
                    stamp += 10
                    parts.append('history add -t %d %s' % (stamp, shell_word(op[1])))
                elif kind == 'list':
                    parts.append('history')
                elif kind == 'search':
                    parts.append('history %s' % shell_word(op[1]))
                elif kind == 'pwd':
                    parts.append('history -p')
                elif kind == 'delete':
                    parts.append('history delete ROWID')
            # run the group's ops one after the other in ONE process, but observe after each op by splitting the
            # process only when the op needs the rowid of the previous state
            for idx, op in enumerate(g):
                kind = op[0]
                before = read_rows(d)
                text = parts[idx]
                if kind == 'delete':
                    if not before:
                        results.append((op, 'skipped', None, None))
                        continue
                    victim = before[min(op[1], len(before) - 1)]
                    text = 'history delete %d' % victim[0]
                r = common.run_cicada(['-c', text], d, cwd=cwd, env=env, stdin=b'', timeout=20)
                after = read_rows(d)
                out = r.out.decode('utf-8', 'replace')
                err = r.err.decode('utf-8', 'replace')
                if kind == 'add':
                    model.append((op[1], stamp - 10 * (len([o for o in g[idx + 1:] if o[0] == 'add']))))
                elif kind == 'delete':
                    model = [m for i, m in enumerate(model) if i != min(op[1], len(before) - 1)]
                results.append((op, {'out': out, 'err': err, 'status': r.status, 'timed_out': r.timed_out,
                                     'rows': [(x[1], x[3]) for x in after], 'model': [m[0] for m in model], 'text': text}, None, None))
        return job, {'results': results, 'cwd': cwd}
    finally:
        common.drop_case_dir(d)


def run_untimed(job):
    """`history add TEXT` without a time stamp, one shell process per add: later processes must see the rows in
    submission order (full listing, limited listing, ascending listing)"""
    texts = job
    d = common.fresh_case_dir()
    try:
        cwd = os.path.join(d, 'plain')
        os.makedirs(cwd)
        if not make_db(d, cwd):
            return job, {'machinery': 'the shell did not create the history database'}
        env = {'HISTORY_FILE': os.path.join(d, 'history.sqlite')}
        for t in texts:
            common.run_cicada(['-c', 'history add %s' % shell_word(t)], d, cwd=cwd, env=env, stdin=b'', timeout=20)
        out = {}
        for name, cmdline in (('list', 'history'), ('limit2', 'history -l 2'), ('asc', 'history -a')):
            r = common.run_cicada(['-c', cmdline], d, cwd=cwd, env=env, stdin=b'', timeout=20)
            out[name] = ([l.split(': ', 1)[1] if ': ' in l else l for l in r.out.decode('utf-8', 'replace').splitlines() if l.strip()], r.status)
        return job, {'listed': out, 'rows': [x[1] for x in read_rows(d)]}
    finally:
        common.drop_case_dir(d)


XDIRS = ['plain', 'a_b', 'axb', 'p%c', 'pzzc', "o'k", 'PLAIN']


def run_cross(job):
    """rows are added from several directories whose names match one another as LIKE patterns; `history -p` in each
    directory must list exactly the rows recorded there"""
    order = job
    d = common.fresh_case_dir()
    try:
        first = os.path.join(d, order[0])
        for n in set(order):
            os.makedirs(os.path.join(d, n), exist_ok=True)
        if not make_db(d, first):
            return job, {'machinery': 'the shell did not create the history database'}
        env = {'HISTORY_FILE': os.path.join(d, 'history.sqlite')}
        stamp = 0
        for n in order:
            stamp += 10
            common.run_cicada(['-c', 'history add -t %d %s' % (stamp, shell_word('in-' + n))], d, cwd=os.path.join(d, n), env=env, stdin=b'', timeout=20)
        out = {}
        for n in sorted(set(order)):
            r = common.run_cicada(['-c', 'history -p'], d, cwd=os.path.join(d, n), env=env, stdin=b'', timeout=20)
            listed = [l.split(': ', 1)[1] if ': ' in l else l for l in r.out.decode('utf-8', 'replace').splitlines() if l.strip()]
            out[n] = (listed, r.status, r.err.decode('utf-8', 'replace')[-200:])
        rows = [x[1] for x in read_rows(d)]
        return job, {'listed': out, 'rows': rows}
    finally:
        common.drop_case_dir(d)


def op_alphabet(tier):
    ops = [('add', t) for t in TEXTS]
    ops += [('list',)]
    ops += [('search', p) for p in PATTERNS]
    ops += [('pwd',)]
    ops += [('delete', 0)]
    return ops


def run_typed(job):
    lines, dups = job
    d = common.fresh_case_dir()
    try:
        env = {'HISTORY_DELETE_DUPS': dups}
        s = ptydrv.Session(d, env=env)
        if not s.start():
            s.close()
            return job, {'machinery': 'no prompt'}
        ok = True
        for l in lines:
            ok = s.line(l) and ok
        s.close()
        rows1 = [x[1] for x in read_rows(d)]
        # a later shell process sees the same rows (and applies the documented purge when enabled)
        s2 = ptydrv.Session(d, env=env)
        s2.start()
        s2.close()
        rows2 = [x[1] for x in read_rows(d)]
        return job, {'ok': ok, 'rows1': rows1, 'rows2': rows2}
    finally:
        common.drop_case_dir(d)


def run(rep, tier):
    depth = 3 if tier == 'thorough' else 2
    rep.rule = ('all operation sequences of depth <= %d over add(8 texts) / list / search(5 patterns) / -p / delete x {same, new process} x 3 directory names; '
                'interactive: all sequences of <= 3 typed lines x HISTORY_DELETE_DUPS {0,1}; non-trivial = sequence with at least one add; distinct = distinct (sequence, directory)' % depth)
    rep.assumptions = [
        'the database is created by the shell itself (one interactive start on a pty); rows are read back with python sqlite3',
        'add operations carry increasing -t stamps so that the order is defined; search patterns follow SQL LIKE as documented (% anything, _ one character)',
        'every operation is observed in its own shell process; "same process" joins are not distinguished at this level (the builtin opens the database per call)',
    ]
    alphabet = op_alphabet(tier)
    jobs = []
    for cwd in CWDS:
        for n in range(1, depth + 1):
            for seq in itertools.product(alphabet, repeat=n):
                if n >= 2 and not any(o[0] == 'add' for o in seq[:-1]):
                    continue    # queries / deletes on an empty database add nothing beyond depth 1
                if n == 3 and cwd != "o'k" and seq[0][0] == 'add' and seq[0][1] not in ("it's", '100%', 'a'):
                    continue
                jobs.append((cwd, tuple(o + ('new',) for o in seq)))
    states = set()
    for job, res in common.pmap(run_history, jobs, chunk=2):
        cwd_name, ops = job
        rep.evaluations += 1
        if 'machinery' in res:
            rep.machinery.append(res['machinery'])
            continue
        if any(o[0] == 'add' for o in ops):
            rep.nontrivial += 1
        bad = False
        for op, o, _, _ in res['results']:
            rep.transitions += 1
            if o == 'skipped':
                continue
            kind = op[0]
            dev = None
            rows = [r[0] for r in o['rows']]
            states.add(repr(rows))
            errors = ('error' in o['err'].lower()) or ('error' in o['out'].lower())
            if o['timed_out']:
                dev = 'hang'
            elif rows != o['model']:
                dev = 'rows-differ-after-' + kind
            elif kind in ('list', 'search', 'pwd') and (errors or o['status'] != 0):
                dev = 'listing-broken:' + kind
            elif kind == 'add' and (errors or o['status'] != 0):
                dev = 'add-reports-error'
            elif kind in ('list', 'search', 'pwd'):
                listed = [l.split(': ', 1)[1] if ': ' in l else l for l in o['out'].splitlines() if l.strip()]
                if kind == 'list' and listed != o['model'][-20:]:
                    dev = 'listing-differs'
                elif kind == 'pwd' and listed != o['model'][-20:]:
                    dev = 'pwd-listing-differs'
                elif kind == 'search':
                    want = [t for t in o['model'] if like(op[1], t)][-20:]
                    if listed != want:
                        dev = 'search-result-differs'
            if dev:
                bad = True
                tcls = op[1] if kind in ('add', 'search') else ''
                rep.violation('%s:%s:%s' % (dev, 'cwd=' + cwd_name, 'arg=' + str(tcls)), {'cwd_name': cwd_name, 'ops': [o2[:-1] for o2 in ops], 'failing_op': o['text']},
                              {'rows': o['model']}, {'rows': rows, 'out': o['out'][-300:], 'err': o['err'][-300:], 'status': o['status']},
                              repro='in a directory named %r with HISTORY_FILE set: cicada -c %s' % (cwd_name, common.shquote(o['text'])))
                break
        if bad:
            rep.outcome('deviation')
        else:
            rep.outcome('ok:depth%d' % len(ops))
            rep.traces_validated += 1
    rep.bounds.append({'layer': 'history builtin, real binary, independent sqlite reader', 'depth': depth, 'histories': len(jobs), 'complete': True})
    # rows from several directories: -p must select by the directory name taken literally
    xjobs = [tuple(XDIRS), tuple(reversed(XDIRS))] + [tuple(p) for p in itertools.permutations(['a_b', 'axb', 'p%c', 'pzzc'], 4)][:6 if tier == 'quick' else 24]
    for order, res in common.pmap(run_cross, xjobs, chunk=1):
        rep.evaluations += 1
        rep.transitions += 2 * len(order)
        if 'machinery' in res:
            rep.machinery.append(res['machinery'])
            continue
        if res['rows'] != ['in-' + n for n in order]:
            rep.violation('cross-dir:rows-differ', {'directories_in_order': list(order)}, ['in-' + n for n in order], res['rows'])
            continue
        bad = False
        for n, (listed, status, err) in res['listed'].items():
            if listed != ['in-' + n] or status != 0:
                kind = 'wildcard-in-name' if ('%' in n or '_' in n) else 'quote-in-name' if "'" in n else 'plain-name'
                rep.violation('pwd-listing-differs:cross-dir:%s' % kind, {'directories_in_order': list(order), 'history -p in': n}, ['in-' + n],
                              {'listed': listed, 'status': status, 'err': err}, repro='add rows from the directories, then `history -p` in %r' % n)
                bad = True
                break
        if bad:
            rep.outcome('deviation:cross-dir')
        else:
            rep.outcome('ok:cross-dir')
            rep.traces_validated += 1
    rep.bounds.append({'layer': 'rows from several directories with names matching one another as LIKE patterns; history -p per directory', 'histories': len(xjobs), 'complete': True})
    # `history add` without a time stamp
    ujobs = [tuple(t) for n in (2, 3) for t in itertools.permutations(['one', 'two', 'three'], n)]
    for texts, res in common.pmap(run_untimed, ujobs, chunk=2):
        rep.evaluations += 1
        rep.transitions += len(texts)
        if 'machinery' in res:
            rep.machinery.append(res['machinery'])
            continue
        want = {'list': list(texts), 'limit2': list(texts)[-2:], 'asc': list(texts)}
        bad = [k for k in ('list', 'limit2', 'asc') if res['listed'][k][0] != want[k] or res['listed'][k][1] != 0]
        if sorted(res['rows']) != sorted(texts):
            rep.violation('untimed-add:rows-differ', {'adds_without_time_stamp': list(texts)}, sorted(texts), res['rows'])
            rep.outcome('deviation:untimed-add')
        elif bad:
            rep.violation('untimed-add:submission-order:%s' % bad[0], {'adds_without_time_stamp': list(texts), 'then': {'list': 'history', 'limit2': 'history -l 2', 'asc': 'history -a'}[bad[0]]},
                          want[bad[0]], res['listed'][bad[0]][0], repro='one cicada -c "history add TEXT" per text, then the listing command')
            rep.outcome('deviation:untimed-add')
        else:
            rep.outcome('ok:untimed-add')
            rep.traces_validated += 1
    rep.bounds.append({'layer': '`history add` without a time stamp: every ordered selection of 2..3 of 3 texts, listings in later processes', 'histories': len(ujobs), 'complete': True})
    # interactive layer
    typed = ['vh-mark a 0', ' vh-mark a 0', 'vh-mark b 0', '!!']
    # texts that match one another as SQL LIKE patterns or differ only in case: they are different commands
    typed_like = ['vh-mark a_c 0', 'vh-mark abc 0', 'vh-mark ABC 0', 'vh-mark a%c 0',
                  # texts with quotes, a backslash, multi-byte characters, a list operator, a comment and an SQL comment marker
                  'vh-argv "d q" \'it\' a\\\\b é', 'vh-mark p 0 ; vh-mark q 0 # c', 'vh-argv 100% x_y -- "\')"']
    tjobs = []
    for n in range(1, 4):
        for seq in itertools.product(typed + typed_like if (n <= 2 or tier == 'thorough') else typed, repeat=n):
            for dups in ('0', '1'):
                tjobs.append((seq, dups))
    for (seq, dups), res in common.pmap(run_typed, tjobs, chunk=2):
        rep.evaluations += 1
        rep.transitions += len(seq)
        if 'machinery' in res:
            rep.machinery.append(res['machinery'])
            continue
        model = []
        prev = None
        for l in seq:
            if l == '!!' and prev is not None:
                l = prev        # replaced by the previous recorded command: an immediate repeat
            if not l.startswith(' ') and l != prev:
                model.append(l)
                prev = l
            # cicada compares with the previous RECORDED command: a leading-blank line in between does not reset it
        model2 = list(model)
        if dups == '1':
            # documented purge at start-up: only the latest copy of a text is kept
            seen = set()
            m = []
            for t in reversed(model2):
                if t not in seen:
                    seen.add(t)
                    m.append(t)
            model2 = list(reversed(m))
        if res['rows1'] != model:
            rep.violation('typed-rows:%s' % ('leading-blank' if any(l.startswith(' ') for l in seq) else 'repeat' if len(set(seq)) < len(seq) else 'plain'),
                          {'typed': seq, 'HISTORY_DELETE_DUPS': dups}, {'rows': model}, {'rows': res['rows1']})
            rep.outcome('deviation')
        elif res['rows2'] != model2:
            rep.violation('typed-rows-next-process:dups%s' % dups, {'typed': seq, 'HISTORY_DELETE_DUPS': dups}, {'rows': model2}, {'rows': res['rows2']})
            rep.outcome('deviation')
        else:
            rep.outcome('ok:typed')
            rep.traces_validated += 1
    rep.bounds.append({'layer': 'interactive (pty): typed line sequences', 'sessions': len(tjobs), 'complete': True})
    rep.states = len(states)
    rep.sample({'cwd_name': jobs[len(jobs) // 2][0], 'ops': [o[:-1] for o in jobs[len(jobs) // 2][1]]})
    if rep.traces_validated < 50:
        rep.machinery.append('vacuity guard: too few passing histories')
