"""C05 — no input line, script or keystroke sequence crashes or hangs the shell.

in-process (Rust engine, see harness/src/props/c05.rs): every string up to length L over two
14-symbol alphabets through all pure stages; every string up to L-1 through planning under three
variable environments; every sequence of script lines over a block-keyword alphabet.
process level (here): every string up to length 3 (thorough 4) executed by the real binary with
`-c` and as a script followed by a sentinel command, under a watchdog."""
import itertools
import os

from .. import common, ptydrv

SIGMA_A = [" ", "a", "1", "é", "'", '"', "`", "\\", "$", "(", ")", "|", "&", ">"]
SIGMA_B = ["{", "}", ",", ".", "*", "~", "<", ";", "#", "=", "+", "^", "1", "a"]
# the characters of A and B that interact across the two alphabets (${a, "${, ~{, {$a,)
SIGMA_C = ["$", "{", "}", "a", "1", "`", '"', "'", "\\", "(", ")", "*", "~", " "]
CRASH_STATUS = {101, 134, 139, 132, 136}


def strings(alpha, lo, hi):
    for n in range(lo, hi + 1):
        for t in itertools.product(alpha, repeat=n):
            yield ''.join(t)


def _crash_sig(r):
    if r.status in CRASH_STATUS or b'panicked at' in r.err:
        where = ''
        for l in r.err.decode('utf-8', 'replace').splitlines():
            if 'panicked at' in l:
                where = l.split('panicked at')[1].strip().split(' ')[0].rstrip(':')
                break
        where = where.rsplit('/src/', 1)[-1]
        return 'panic@' + ':'.join(where.split(':')[:2])
    return None


def _run_script(lines, d, timeout):
    path = os.path.join(d, 's.sh')
    with open(path, 'w') as fh:
        fh.write(''.join(l + '\n' for l in lines) + 'vh-mark SENTINEL 0\n')
    r = common.run_cicada([path], d, timeout=timeout)
    sentinel = any(x.get('k') == 'mark' and x['argv'][:1] == ['SENTINEL'] for x in r.records)
    return r, sentinel


def _verdict(mode, lines, d, timeout):
    """('ok'|sig, info) for one -c line or one script made of `lines` + sentinel."""
    if mode == 'c':
        r = common.run_cicada(['-c', lines[0]], d, timeout=timeout)
        sentinel = True
    else:
        r, sentinel = _run_script(lines, d, timeout)
    if r.timed_out:
        return 'hang', 'no exit within %s s' % timeout
    sig = _crash_sig(r)
    if sig:
        return sig, 'status=%s stderr=%s' % (r.status, r.err[-300:].decode('utf-8', 'replace'))
    if not sentinel and not (len(lines) == 1 and ends_open(lines[0])):
        return 'sentinel-not-run', 'status=%s stderr=%s' % (r.status, r.err[-300:].decode('utf-8', 'replace'))
    return 'ok', r.status


def exec_case(case):
    """case = (mode, [lines]); a script batch that fails is bisected down to single lines."""
    mode, lines = case
    d = common.fresh_case_dir()
    for f in ('a', 'a1'):
        with open(os.path.join(d, f), 'w') as fh:
            fh.write('x\n')
    out = []
    try:
        v, info = _verdict(mode, lines, d, 10 + len(lines) * 0.2)
        if v == 'ok':
            return [('ok', mode, lines, info, len(lines))]
        if len(lines) == 1:
            if v == 'hang':
                v2, info2 = _verdict(mode, lines, d, 40)
                if v2 != 'hang':
                    return [('machinery', mode, lines, 'timeout not reproducible', 1)]
            return [(v, mode, lines, info, 1)]
        # bisect: every line alone
        bad = 0
        for l in lines:
            v1, info1 = _verdict(mode, [l], d, 10)
            if v1 == 'hang':
                v1b, _ = _verdict(mode, [l], d, 40)
                if v1b != 'hang':
                    out.append(('machinery', mode, [l], 'timeout not reproducible', 1))
                    continue
            if v1 != 'ok':
                bad += 1
                out.append((v1, mode, [l], info1, 1))
            else:
                out.append(('ok', mode, [l], info1, 1))
        if bad == 0:
            # only the sequence fails: report the sequence itself
            out.append((v + ':sequence', mode, lines, info, 0))
        return out
    finally:
        common.drop_case_dir(d)


KEYS = ['a', ' ', "'", '"', '\\', '|', 'é', '\t', '\r', '\x03']


def key_session(seq):
    """type a key sequence into the real interactive binary, then Ctrl-C, Enter and a sentinel line"""
    d = common.fresh_case_dir()
    try:
        s = ptydrv.Session(d)
        if not s.start():
            s.close()
            return seq, 'machinery', 'no prompt'
        for k in seq:
            s.send(k)
            s.pump(0.002)
        s.pump(0.03)
        # abandon whatever is on the line (also leaves a continuation prompt), then run the sentinel
        s.send('\x03')
        s.pump(0.02)
        s.send('\r')
        s.pump(0.02)
        s.send('vh-mark SENTINEL 0\r')
        got = s.wait(lambda: any(x.get('k') == 'mark' and x['argv'][:1] == ['SENTINEL'] for x in s.records()), 5.0)
        alive = s.alive()
        tail = s.buf[-200:].decode('utf-8', 'replace')
        s.kill()
        if not alive:
            return seq, 'shell-died', tail
        if b'panicked at' in s.buf:
            return seq, 'panic', tail
        if not got:
            return seq, 'sentinel-not-run', tail
        return seq, 'ok', None
    finally:
        common.drop_case_dir(d)


def ends_open(s):
    # a trailing backslash joins the next line by design
    return s.endswith('\\')


def run(rep, tier):
    rep.rule = ('every string over alphabets A = %r, B = %r and C (mixed) up to the stated length; non-trivial = tokenizes into '
                'more than one token or more than one list segment (in-process), distinct = distinct string' % (SIGMA_A, SIGMA_B))
    rep.assumptions = [
        'inputs limited to the three 14-symbol alphabets (A, B and C = the interacting characters of both), the 8-symbol alphabet D = { } , \\ a . " 1 (brace groups x escapes, in-process layers only, two characters longer) and the stated lengths; script layer limited to the listed block-keyword lines',
        'pure stages run in-process through cicada::verif_hooks in forked workers; PATH is empty there, so command substitution runs only not-found commands',
        'prefix-closed enumeration: highlighting / word-start of "every prefix" is covered because every shorter string is itself a case',
        'hang = no progress for 2 s on a sub-millisecond case, confirmed alone with a 4x limit (in-process) / 10 s then 40 s (binary)',
        'real-binary layer: strings are executed as lines of one script per batch of 40 (a failing batch is bisected to single lines) and, up to the smaller stated length, one `-c` process per string',
        'builtin layer: every builtin with every argument list of length 0..1 (nine builtins and thorough: all, also length 2) over 16 boundary words (non-numeric, huge, negative, option-like, empty); stdin is /dev/null',
        'keystroke layer: every sequence of up to 3 (thorough 4) keys over ten keys (letters, blank, quotes, backslash, pipe, multi-byte, TAB, Enter, Ctrl-C) typed into the real interactive binary on a pty; a failure is believed only if reproduced alone',
    ]
    res = common.run_engine('C05', tier)
    rep.merge_engine(res)
    # process level
    L_script, L_c = (4, 3) if tier == 'thorough' else (3, 2)
    cases = []
    nlines = 0
    for alpha in (SIGMA_A, SIGMA_B, SIGMA_C):
        batch = []
        for s in strings(alpha, 1, L_script):
            if ends_open(s):
                cases.append(('script', [s]))
            else:
                batch.append(s)
                if len(batch) == 40:
                    cases.append(('script', batch))
                    batch = []
            nlines += 1
        if batch:
            cases.append(('script', batch))
        for s in strings(alpha, 1, L_c):
            cases.append(('c', [s]))
            nlines += 1
    # builtins with boundary arguments (non-numeric / huge / negative numbers, option-like words, missing operands)
    BUILTINS = ['alias', 'bg', 'cd', 'cinfo', 'exec', 'exit', 'export', 'fg', 'history', 'jobs', 'read', 'source', 'ulimit', 'unalias', 'vox', 'minfd', 'set', 'unset', 'unpath']
    BARGS = ['x', '-1', '0', '99999999999999999999', '-n', '-x', '--help', '=', 'a=b', '%1', '%', '/nonexistent', '.', "''", '1.5', '-e']
    own_process = ('exit', 'exec', 'ulimit', 'cd', 'source', 'set', 'read')     # change the shell for the lines after them
    nb = 0
    for b in BUILTINS:
        lines_b = [b] + ['%s %s' % (b, a) for a in BARGS]
        if tier == 'thorough' or b in ('fg', 'bg', 'history', 'ulimit', 'exit', 'read', 'export', 'unset', 'alias'):
            lines_b += ['%s %s %s' % (b, a1, a2) for a1 in BARGS for a2 in BARGS]
        nb += len(lines_b)
        if b in own_process:
            cases += [('c', [l]) for l in lines_b]
        else:
            for i in range(0, len(lines_b), 40):
                cases.append(('script', lines_b[i:i + 40]))
    results = common.pmap(exec_case, cases, chunk=2)
    agree = 0
    for sub in results:
        for kind, mode, lines, info, n in sub:
            rep.evaluations += n
            rep.transitions += n
            if kind == 'ok':
                rep.outcome('exec-ok')
                agree += n
            elif kind == 'machinery':
                rep.machinery.append('%s: %r' % (info, lines))
            else:
                rep.outcome('exec-' + kind.split('@')[0])
                rep.violation('binary:' + kind, {'mode': mode, 'line': lines[0] if len(lines) == 1 else None, 'lines': lines},
                              'no crash, no hang, sentinel runs', info,
                              repro=("cicada -c %s" % common.shquote(lines[0])) if mode == 'c' else 'script of these lines + sentinel line')
    # key sequences on a pseudo-terminal (the real line editor, highlighter, completer, Enter function)
    import itertools as _it
    kmax = 4 if tier == 'thorough' else 3
    kseqs = [t for n in range(1, kmax + 1) for t in _it.product(KEYS, repeat=n)]
    for seq, kind, info in common.pmap(key_session, kseqs, workers=6, chunk=8):
        rep.evaluations += 1
        rep.transitions += len(seq)
        if kind == 'ok':
            rep.outcome('keys-ok')
            agree += 1
        elif kind == 'machinery':
            rep.machinery.append('pty: %s' % info)
        else:
            # believed only if reproduced alone
            seq2, kind2, info2 = key_session(seq)
            if kind2 == 'ok':
                rep.outcome('keys-ok')
                agree += 1
                continue
            rep.outcome('keys-' + kind2)
            rep.violation('keys:' + kind2, {'keys': [repr(k) for k in seq]}, 'the shell survives and runs the next command', info2,
                          repro='type the keys at the interactive prompt, then Ctrl-C, Enter, a command')
    rep.bounds.append({'layer': 'pty: key sequences over %r then Ctrl-C, Enter, sentinel' % KEYS, 'len': kmax, 'sessions': len(kseqs), 'complete': True})
    rep.traces_validated = agree
    rep.bounds.append({'layer': 'real binary: script lines + sentinel', 'len': L_script, 'complete': True})
    rep.bounds.append({'layer': 'real binary: builtins x boundary argument lists', 'lines': nb, 'complete': True})
    rep.bounds.append({'layer': 'real binary: -c', 'len': L_c, 'complete': True})
    rep.sample({'mode': cases[-1][0], 'line': cases[-1][1][0]})
    if rep.outcomes.get('tok2c', 0) == 0 or rep.outcomes.get('plan1ok1', 0) == 0 or agree < nlines // 2:
        rep.machinery.append('vacuity guard: expected outcome classes missing')
