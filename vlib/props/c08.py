"""C08 — running commands never leaks file descriptors, in the shell or into children.

E2 (explicit histories): ALL sequences of up to 2 (thorough 3) command templates (pipelines of 1..4 stages, every
redirection form on externals and builtins, builtins alone and in pipelines, command substitutions (of externals, builtins, pipelines and functions), functions called / captured /
piped / redirected (script file), here-strings,
failing / not-found / unopenable-target commands, a background job, source, arithmetic), every builtin with every
sequence of up to two output redirections, and every captured command `$(cmd redirections)` with every sequence of up
to two redirections (alone and as last pipeline stage) are run in one real shell
process with a probe after every command; the probe (a helper started by the shell) records the shell's own
descriptor table from /proc/<ppid>/fd and every helper records the descriptors it was started with.
E4 (fault enumeration): EVERY soft RLIMIT_NOFILE value 4..40 x pipeline templates of 1..6 stages (plain, with
output capture, with a here-string on every stage position, capture + here-string): the limit is lowered with the shell's own `ulimit -n`, the pipeline runs, the
limit is raised again. Oracle: the shell's descriptor set never changes, every started program has exactly
descriptors 0,1,2, and when pipe creation fails the pipeline fails with a non-zero status, nothing hangs and the
following command works."""
import itertools
import os

from .. import common

TEMPLATES = [
    'vh-argv a',
    'vh-argv a | vh-argv b',
    'vh-argv a | vh-argv b | vh-argv c',
    'vh-argv a | vh-argv b | vh-argv c | vh-argv d',
    'vh-io t > f1', 'vh-io t >> f1', 'vh-io t 2> f1', 'vh-io t 2>&1', 'vh-io t 1>&2', 'vh-io t < g', 'vh-io t <<< w',
    'vh-io t > f1 2>&1', 'vh-io a | vh-io t 2>&1 | vh-io c', 'vh-io a | vh-io t > f1',
    'alias', 'alias > f1', 'alias 2>&1', 'cd .', 'export XV=1', 'unalias nosuch', 'unalias nosuch 2> f1', 'read RV <<< w', 'read RV < g',
    'alias | vh-argv a', 'vh-argv a | alias',
    'vh-argv $(vh-emit 0)', 'vh-argv `vh-emit 0`', 'vh-argv $(alias)', 'vh-argv $(vh-emit 0 | vh-io x)', 'RV=$(vh-emit 0)',
    'vh-io a <<< w | vh-argv b', 'vh-argv a | vh-argv b | vh-io c <<< w',
    'vh-mark m 1', 'vh-nosuchcmd', 'vh-io t > /nonexistent-dir/x', 'vh-io t < nosuchfile', 'vh-argv a | vh-nosuchcmd',
    'vh-argv bg &',
    'source ./inc.sh',
    '1 + 2',
    'history',
]


def setup(d):
    with open(os.path.join(d, 'g'), 'w') as f:
        f.write('from-g\n')
    with open(os.path.join(d, 'emit.0'), 'w') as f:
        f.write('emitted\n')
    with open(os.path.join(d, 'inc.sh'), 'w') as f:
        f.write('vh-argv sourced\nSV=1\n')


def fdkey(fds):
    return sorted((n, t if not t.startswith('/dev/shm/') else 'SCRATCH') for n, t in fds)


FUNC_TEMPLATES = ['ff', 'vh-argv $(ff)', 'vh-argv `ff`', 'ff | vh-io x', 'vh-io a | ff', 'ff > f1', 'ff 2>&1', 'RV=$(ff)', 'gg', 'vh-argv $(gg)']
FUNC_HEADER = 'function ff {\n    vh-argv infn\n}\nfunction gg {\n    vh-io a | vh-io b\n    vh-argv $(vh-emit 0)\n}\n'


def run_seq(seq):
    d = common.fresh_case_dir()
    try:
        setup(d)
        parts = ['vh-argv PROBE0']
        for i, t in enumerate(seq):
            parts.append(t)
            parts.append('vh-argv PROBE%d' % (i + 1))
        if any(t in FUNC_TEMPLATES for t in seq):
            # functions can only be defined in a script: one command per line
            line = FUNC_HEADER + '\n'.join(parts) + '\n'
            with open(os.path.join(d, 'main.sh'), 'w') as f:
                f.write(line)
            r = common.run_cicada([os.path.join(d, 'main.sh')], d, stdin=b'', timeout=30)
        else:
            line = ' ; '.join(parts)
            r = common.run_cicada(['-c', line], d, stdin=b'', timeout=30)
        probes = {}
        bad_children = []
        for x in r.records:
            if x.get('k') in ('argv', 'io', 'mark', 'emit'):
                own = [n for n, t in x.get('fds', [])]
                if x.get('k') == 'argv' and x['argv'] and x['argv'][0].startswith('PROBE'):
                    probes[int(x['argv'][0][5:])] = fdkey(x.get('pfds', []))
                if sorted(own) != [0, 1, 2]:
                    bad_children.append((x.get('name'), x.get('argv'), x.get('fds')))
        return seq, line, {'timed_out': r.timed_out, 'probes': probes, 'bad_children': bad_children, 'status': r.status,
                           'err': r.err[-300:].decode('utf-8', 'replace')}
    finally:
        common.drop_case_dir(d)


PIPE_TEMPLATES = []
for n in range(1, 7):
    PIPE_TEMPLATES.append(('plain-%d' % n, ' | '.join('vh-argv s%d' % i for i in range(n)), n))
for n in range(1, 5):
    PIPE_TEMPLATES.append(('capture-%d' % n, 'vh-argv2 $(%s)' % ' | '.join(['vh-emit 0'] + ['vh-io c%d' % i for i in range(1, n)]), n))
for n in range(1, 5):
    for k in range(n):      # the here-string (one more pipe, created just before that stage is started) on every stage
        PIPE_TEMPLATES.append(('herestring-%d-at-%d' % (n, k), ' | '.join(('vh-io h%d <<< w' % i) if i == k else ('vh-argv s%d' % i) for i in range(n)), n))
for n in range(1, 4):
    PIPE_TEMPLATES.append(('capture-herestring-%d' % n, 'vh-argv2 $(%s)' % ' | '.join(['vh-emit 0'] + ['vh-io c%d' % i for i in range(1, n - 1)] + (['vh-io last <<< w'] if n > 1 else [])), n))


def run_limit(job):
    v, (name, pipeline, n) = job
    d = common.fresh_case_dir()
    try:
        setup(d)
        line = 'vh-argv PROBE0 ; ulimit -n %d ; %s ; PS=$? ; ulimit -n 256 ; vh-mark S 0 $PS ; vh-argv PROBE1' % (v, pipeline)
        r = common.run_cicada(['-c', line], d, stdin=b'', timeout=30)
        probes = {}
        stages = 0
        status = None
        bad_children = []
        for x in r.records:
            own = sorted(nn for nn, t in x.get('fds', []))
            if x.get('k') == 'argv' and x['argv'] and x['argv'][0].startswith('PROBE'):
                probes[int(x['argv'][0][5:])] = fdkey(x.get('pfds', []))
            elif x.get('k') == 'mark' and x['argv'][0] == 'S':
                status = x['argv'][2]
            elif x.get('k') in ('argv', 'io', 'emit'):
                stages += 1
                if own != [0, 1, 2]:
                    bad_children.append((x.get('name'), x.get('argv'), x.get('fds')))
        err = r.err.decode('utf-8', 'replace')
        failed = 'cicada: pipeline' in err or 'Too many open files' in err or 'Fork failed' in err
        return job, line, {'timed_out': r.timed_out, 'probes': probes, 'stages': stages, 'status': status, 'pipe_failed': failed,
                           'bad_children': bad_children, 'err': err[-300:]}
    finally:
        common.drop_case_dir(d)


def run(rep, tier):
    depth = 3 if tier == 'thorough' else 2
    rep.rule = ('E2: all sequences of up to %d of the %d command templates, a probe after every command; E4: every RLIMIT_NOFILE value 4..40 x %d pipeline templates; '
                'non-trivial = sequence of >= 2 commands / a limit at which pipe creation really failed; distinct = distinct sequence / (limit, template)' % (depth, len(TEMPLATES), len(PIPE_TEMPLATES)))
    rep.assumptions = [
        'the shell descriptor table is read by a helper process started by the shell (from /proc/<ppid>/fd) while the shell waits for it',
        'the probe itself needs a free descriptor: limits below 4 are not explored; helpers raise their own soft limit after recording',
        'interactive-only descriptors (history database, line editor) are not open in -c mode and are covered by C18 / the pty checks',
    ]
    seqs = [()]
    for n in range(1, depth + 1):
        if n == 3:
            hot = [t for t in TEMPLATES if any(k in t for k in ('$(', '`', '<<<', '2>&1', '|', 'source', '&'))]
            seqs += list(itertools.product(hot, repeat=3))
        else:
            seqs += list(itertools.product(TEMPLATES, repeat=n))
    # every builtin (stdout-producing and stderr-producing) with every sequence of up to two output redirections,
    # followed by a further command whose descriptors are recorded as well
    OUTR = ['> f1', '>> f1', '2> f1', '2>> f2', '2>&1', '1>&2', '> f2', '2> f2']
    for b in ('alias', 'unalias nosuch', 'minfd'):
        for n in (1, 2):
            for rs in itertools.product(OUTR, repeat=n):
                seqs.append(('%s %s' % (b, ' '.join(rs)), 'vh-argv after'))
    # functions (called, captured, in pipelines, redirected), in a script file: alone, twice, and next to core templates
    core = ['vh-argv a', 'vh-argv a | vh-argv b', 'vh-io t > f1', 'vh-argv $(vh-emit 0)', 'alias']
    for t in FUNC_TEMPLATES:
        seqs.append((t,))
        for u in FUNC_TEMPLATES + core:
            seqs.append((t, u))
            if u in core:
                seqs.append((u, t))
    # output capture combined with redirections: an external program inside $(...) / backquotes (alone and as the last
    # stage of a pipeline) with every sequence of up to two redirections, followed by a further command
    INR = OUTR + ['< g', '<<< w']
    ncap = 0
    capclass = {}

    def rkind(r):
        return {'>': 'out-file', '>>': 'out-file', '2>': 'err-file', '2>>': 'err-file', '2>&1': 'err-dup', '1>&2': 'out-dup', '<': 'in-file', '<<<': 'here-string'}[r.split()[0]]
    for n in (1, 2):
        for rs in itertools.product(INR, repeat=n):
            if sum(1 for r in rs if r.startswith('<')) > 1:
                continue
            r = ' '.join(rs)
            for inner in ('vh-io t %s' % r, 'vh-emit 0 | vh-io t %s' % r):
                forms = ['vh-argv $(%s)', 'RV=`%s`'] if n == 1 or tier == 'thorough' else ['vh-argv $(%s)']
                for form in forms:
                    seqs.append((form % inner, 'vh-argv after'))
                    capclass[form % inner] = 'captured-%s:%s' % ('pipeline' if '|' in inner else 'command', '+'.join(sorted(set(rkind(x) for x in rs))))
                    ncap += 1
    states = set()
    for seq, line, obs in common.pmap(run_seq, seqs, chunk=8):
        rep.evaluations += 1
        rep.transitions += len(seq)
        if len(seq) >= 2:
            rep.nontrivial += 1
        base = obs['probes'].get(0)
        dev = None
        detail = None
        if obs['timed_out']:
            dev, detail = 'hang', None
        elif base is None or len(obs['probes']) != len(seq) + 1:
            dev, detail = 'probe-missing', sorted(obs['probes'])
        else:
            for i in range(1, len(seq) + 1):
                if obs['probes'][i] != base:
                    dev = 'shell-fd-set-changed'
                    detail = {'after': seq[i - 1], 'baseline': base, 'now': obs['probes'][i]}
                    culprit = seq[i - 1]
                    break
            if dev is None and obs['bad_children']:
                dev = 'child-inherited-extra-fd'
                detail = obs['bad_children'][:2]
                culprit = ' '.join(str(a) for a in obs['bad_children'][0][:2])
        states.add(repr(obs['probes'].get(len(seq))))
        if dev is None:
            rep.outcome('neutral:len%d' % len(seq))
            rep.traces_validated += 1
        else:
            rep.outcome('deviation:' + dev)
            cls = culprit if dev in ('shell-fd-set-changed',) else (obs['bad_children'][0][0] + ' in ' + [t for t in seq if True][0] if dev == 'child-inherited-extra-fd' else '')
            if dev == 'child-inherited-extra-fd':
                # class = the template during which the child was started
                cls = next((t for t in seq if any(str(a) in t for a in (obs['bad_children'][0][1] or ['?'])[:1])), seq[0] if seq else '')
            if seq and seq[0] in capclass:
                cls = capclass[seq[0]]
            rep.violation('%s:%s' % (dev, cls), {'line': line, 'sequence': seq}, 'shell fds unchanged; children start with 0,1,2 only', detail,
                          repro='cicada -c %s' % common.shquote(line))
    rep.states = len(states)
    rep.bounds.append({'layer': 'E2 sequences of templates, real binary', 'depth': depth, 'sequences': len(seqs), 'complete': True})
    # E4
    jobs = [(v, t) for v in range(4, 41) for t in PIPE_TEMPLATES]
    failed_seen = 0
    ok_seen = 0
    for job, line, obs in common.pmap(run_limit, jobs, chunk=8):
        v, (name, pipeline, n) = job
        rep.evaluations += 1
        rep.transitions += 1
        dev = None
        if obs['timed_out']:
            dev = 'hang-under-fd-exhaustion'
        elif 1 not in obs['probes'] or 0 not in obs['probes']:
            dev = 'shell-unusable-after-fd-exhaustion'
        elif obs['probes'][0] != obs['probes'][1]:
            dev = 'shell-fd-set-changed-after-fd-exhaustion'
        elif obs['pipe_failed'] and obs['status'] in ('0', None) and not name.startswith('capture'):
            # (for the capture templates the failing pipeline is the inner one of a substitution; the line's
            #  status is that of the outer command, as in every shell)
            dev = 'zero-status-after-pipe-failure'
        elif not obs['pipe_failed'] and obs['status'] == '0' and obs['stages'] < (n if not name.startswith('capture') else n + 1):
            dev = 'stage-missing-without-diagnostic'
        elif obs['bad_children']:
            dev = 'child-inherited-extra-fd'
        if obs['pipe_failed']:
            failed_seen += 1
            rep.nontrivial += 1
        else:
            ok_seen += 1
        if dev is None:
            rep.outcome('rlimit-ok:%s' % ('failed-cleanly' if obs['pipe_failed'] else 'ran'))
        else:
            rep.outcome('deviation:' + dev)
            rep.violation('%s:%s' % (dev, name.split('-')[0]), {'line': line, 'rlimit_nofile': v, 'template': name}, 'clean failure or normal run; shell fds unchanged',
                          obs, repro='cicada -c %s' % common.shquote(line))
    rep.bounds.append({'layer': 'E4 RLIMIT_NOFILE 4..40 x pipeline templates', 'cases': len(jobs), 'pipe_creation_failed_in': failed_seen, 'complete': True})
    rep.sample({'sequence': list(seqs[len(seqs) // 2])})
    rep.sample({'rlimit_nofile': 7, 'pipeline': PIPE_TEMPLATES[3][1]})
    if failed_seen == 0 or ok_seen == 0:
        rep.machinery.append('vacuity guard: fault injection never made pipe creation fail (%d) or never let it succeed (%d)' % (failed_seen, ok_seen))
