"""C20 — what TAB inserts for a file name is read back as exactly that file.

Real interactive binary on a pseudo-terminal (the real line editor, the real completer): for EVERY name of length 1
(and 2; thorough also 3 in the unquoted context) over the 27-character file-name alphabet, plus 40 structured names (paired backquotes, $(x), ${x}, brace groups, embedded quotes ...), preceded by a unique prefix
that selects it, the prefix is typed after `vh-argv ` unquoted, after an open single quote and after an open double
quote, TAB is pressed, then Enter: the helper must receive exactly the entry's name. Directories: `cd <prefix>` TAB
Enter must enter exactly that directory. Candidate lists: for populations with shared prefixes TAB TAB must offer
exactly the entries with the typed prefix (directories only after cd).

In-process layer (harness/src/props/c20.rs): word start + path completion + Enter processing + planner, composed from the
real functions, for EVERY name of length <= 3 (thorough 4) over the alphabet in all four contexts (82 k / 2.2 M cases);
the composition (a model of the editor glue only) is bound to the real editor by recomputing every pty verdict."""
import itertools
import json
import os
import time

from .. import common, ptydrv

ALPHA = [' ', "'", '"', '$', '*', '?', '[', ']', '{', '}', ',', '~', '#', '|', '&', ';', '<', '>', '(', ')', '\\', '!', '`', '=', '%', '^', 'é']
CTX = {'U': '', 'S': "'", 'D': '"', 'C': '', 'CS': "'", 'CD': '"'}
# where the entry lives and how that is typed in front of the prefix: working directory, sub-directory, home (~), variable
VARIANTS = ['plain', 'after-argument-ending-in-escaped-backslash', 'after-single-quoted-argument', 'after-double-quoted-argument', 'after-argument-with-escaped-blank', 'one-more-character-typed',
            'no-letter-prefix-first-character-typed']
LOCS = [('cwd', ''), ('subdirectory', 'sd/'), ('home', '~/'), ('variable', '$VDIR/'), ('subdirectory-with-blank', 's d/')]


def prefixes():
    letters = 'abcdefghijklmnopqrstuvwxyz'
    for a in letters:
        for b in letters:
            if a + b in ('cd',):
                continue
            yield a + b


def settle(s, quiet=0.04, limit=2.0):
    t0 = time.time()
    while time.time() - t0 < limit:
        if not s.pump(quiet):
            return True
    return False


def run_batch(job):
    """a failure inside a batch is believed only if it is reproduced alone in a fresh session and directory"""
    ctx, names, loc, variant = job
    res = _run_batch(job)
    if len(names) == 1:
        return res
    out = []
    for r in res:
        if r[2] == 'ok':
            out.append(r)
        else:
            out.extend(_run_batch((ctx, [r[1]], loc, variant)))
    return out


def _run_batch(job):
    ctx, names, loc, variant = job
    d = common.fresh_case_dir()
    out = []
    # what else is on the line (same variants as the in-process layer): an argument in front of the word, or one more
    # character of the name typed before TAB
    before_typed, before_args = {0: ('', []), 1: ('x\\\\ ', ['x\\']), 2: ("'q' ", ['q']), 3: ('"d q" ', ['d q']), 4: ('a\\ b ', ['a b']), 5: ('', []), 6: ('', [])}[variant]
    try:
        w = os.path.join(d, 'w')
        os.makedirs(w)
        home, vdir = os.path.join(d, 'home'), os.path.join(d, 'vdir')
        where = [w, os.path.join(w, 'sd'), home, vdir, os.path.join(w, 's d')][loc]       # directory holding the entries
        shown = ['', 'sd/', home + '/', vdir + '/', 's d/'][loc]            # what the program must receive in front of the name
        os.makedirs(where, exist_ok=True)
        entries = []
        for pre, name in zip(prefixes(), names):
            if variant == 6:
                pre = ''          # the entry's name has no letter prefix (one entry per directory: batches of one name)
            full = pre + name
            if ctx in ('C', 'CS', 'CD'):
                os.makedirs(os.path.join(where, full))
                with open(os.path.join(where, full, 'child'), 'w') as f:
                    f.write('x')
            else:
                with open(os.path.join(where, full), 'w') as f:
                    f.write('x')
            entries.append((pre, name, full))
        s = None
        for pre, name, full in entries:
            if s is None or not s.alive():
                if s is not None:
                    s.close()
                s = ptydrv.Session(d, cwd=w, env={'VDIR': vdir})
                if not s.start():
                    out.append((ctx, name, 'machinery', 'no prompt', loc, variant))
                    s.close()
                    s = None
                    continue
                # a session always has a previous command (history expansion of `!!` needs one to show)
                s.line('vh-mark WARMUP 0')
            nrec = len(s.records())
            nprompt = s.prompts()
            typed_loc = LOCS[loc][1].replace(' ', '\\ ') if ctx in ('U', 'C') else LOCS[loc][1]     # a blank is typed escaped outside quotes
            extra = ''
            if variant in (5, 6) and name:
                c0 = name[0]
                extra = c0 if (CTX[ctx] or c0.isalnum()) else '\\' + c0
            if ctx in ('C', 'CS', 'CD'):
                s.send('cd ' + CTX[ctx] + typed_loc + pre + extra + '\t')
            else:
                s.send('vh-argv ' + before_typed + CTX[ctx] + typed_loc + pre + extra + '\t')
            settle(s)
            s.send('\r')
            ok = s.wait(lambda: s.prompts() > nprompt, 3.0)
            if not ok:
                # the completed line could not be submitted (e.g. it is an incomplete line): abandon it
                s.send('\x03')
                s.wait(lambda: s.prompts() > nprompt, 2.0)
                shown_txt = s.buf[-200:].decode('utf-8', 'replace')
                out.append((ctx, name, 'completed-line-not-accepted', shown_txt, loc, variant))
                if not s.alive() or s.prompts() <= nprompt:
                    s.close()
                    s = None
                continue
            if ctx in ('C', 'CS', 'CD'):
                n2 = s.prompts()
                s.send('vh-argv PROBE\r')
                s.wait(lambda: s.prompts() > n2, 3.0)
                recs = s.records()[nrec:]
                cwd = recs[-1]['cwd'] if recs else None
                n3 = s.prompts()
                s.send('cd ' + common.shquote(w) + '\r')
                s.wait(lambda: s.prompts() > n3, 3.0)
                if cwd == os.path.join(where, full):
                    out.append((ctx, name, 'ok', None, loc, variant))
                else:
                    out.append((ctx, name, 'wrong-directory', cwd, loc, variant))
            else:
                recs = [r for r in s.records()[nrec:] if r.get('k') == 'argv']
                if len(recs) == 1 and recs[0]['argv'] == before_args + [shown + full]:
                    out.append((ctx, name, 'ok', None, loc, variant))
                else:
                    out.append((ctx, name, 'wrong-argv', [r['argv'] for r in recs], loc, variant))
        if s is not None:
            s.close()
        return out
    finally:
        common.drop_case_dir(d)


def run_candidates(job):
    d = common.fresh_case_dir()
    try:
        w = os.path.join(d, 'w')
        os.makedirs(w)
        for f in ('pa1', 'pa 2', 'pb', 'qx'):
            with open(os.path.join(w, f), 'w') as fh:
                fh.write('x')
        for dd in ('pad', 'qd'):
            os.makedirs(os.path.join(w, dd))
        res = []
        for cmd, typed, want, notwant in (('vh-argv', 'pa', ['pa1', 'pa 2', 'pad'], ['pb', 'qx', 'qd']),
                                          ('vh-argv', 'q', ['qx', 'qd'], ['pa1', 'pb', 'pad']),
                                          ('cd', 'p', ['pad'], ['pa1', 'pb', 'qd']),
                                          ('cd', 'q', ['qd'], ['qx', 'pad'])):
            s = ptydrv.Session(d, cwd=w)
            s.start()
            mark = len(s.buf)
            s.send('%s %s\t' % (cmd, typed))
            settle(s)
            s.send('\t')
            settle(s)
            shown = s.buf[mark:].decode('utf-8', 'replace').replace('\\ ', ' ')
            missing = [x for x in want if x not in shown]
            extra = [x for x in notwant if x in shown]
            res.append((cmd, typed, missing, extra, shown[-300:]))
            s.send('\x03')
            s.close()
        return res
    finally:
        common.drop_case_dir(d)


def name_class(name):
    return ''.join(sorted(set(('blank' if c == ' ' else c) for c in name)))


def run(rep, tier):
    rep.rule = ('every name of length 1..2 (thorough: 3 unquoted) over the %d-character alphabet x contexts {unquoted, open single quote, open double quote, cd}; '
                'non-trivial = every case (each name consists of special characters); distinct = distinct (context, name)' % len(ALPHA))
    rep.assumptions = [
        'names are preceded by a unique two-letter prefix which is what is typed before TAB; one candidate per prefix (single-candidate completion), candidate lists are checked on a fixed shared-prefix population',
        'completion is considered finished when the terminal output is quiet for 40 ms (at most 2 s)',
        'a completed line that the editor refuses to submit (continuation prompt) counts as a violation: the inserted text is then not read back as the file',
    ]
    names1 = list(ALPHA)
    names2 = [''.join(t) for t in itertools.product(ALPHA, repeat=2)]
    jobs = []

    def add(ctx, names, loc=0, variant=0):
        for i in range(0, len(names), 60):
            jobs.append((ctx, names[i:i + 60], loc, variant))
    # names built from paired / structured constructs (a command substitution, a brace group, a quoted part ...)
    structured = ['`x`', '$(x)', '${x}', '$x', '{a,b}', '{1..2}', '[x]', "'x'", '"x"', '~x', 'x~', '*x*', '!!', '!x', '#x', 'x#y', 'a b', ' x', 'x ',
                  '-x', 'x=y', 'x|y', 'x&y', 'x;y', 'x>y', 'x<y', '(x)', 'x\\y', '\\x', 'x\\', '$$', '$?', 'é`x`', "`x`'", '"`x`', '$(x)"', "it's",
                  'a"b\'c', "`x`'\"", '$x\'"']
    # (a directory completed inside an open quote leaves the quote open for the next path component: pressing Enter right
    #  away is not a use of the completed text; those contexts are covered by the in-process layer, which closes the quote)
    for ctx in ('U', 'S', 'D', 'C'):
        add(ctx, names1)
        add(ctx, structured)
    # the entry in a sub-directory, in the home directory (typed ~/), under a variable (typed $VDIR/)
    for loc in (1, 2, 3, 4):
        for ctx in ('U', 'S', 'D', 'C'):
            if (ctx == 'S' and loc in (2, 3)) or (ctx == 'D' and loc == 2):
                continue      # `~` / `$VDIR` are not expanded inside these quotes
            add(ctx, names1 + (structured if tier == 'thorough' or ctx == 'U' else []), loc)
    # line variants (bind the in-process layer's variants to the real editor): an argument in front of the completed word,
    # one more character of the name typed by the user
    for variant in (1, 2, 3, 4, 5):
        add('U', names1, 0, variant)
    for ctx in ('S', 'D'):
        add(ctx, [n for n in names1 if n not in ("'", '"', '$', '`', '\\', '!')], 0, 5)
    for n in ('~', '$ ', '|x'.replace('x', '*'), '* ', "~'", '# ', '$~', '{,}'):
        jobs.append(('U', [n], 0, 6))
    add('U', names2)
    hot = [n for n in names2 if any(c in n for c in '\'"\\$ `!')]
    if tier == 'thorough':
        for ctx in ('S', 'D', 'C'):
            add(ctx, names2)
        add('U', [''.join(t) for t in itertools.product(ALPHA, repeat=3)])
    else:
        for ctx in ('S', 'D'):
            add(ctx, hot)
    states = set()
    pty_verdicts = []
    for batch in common.pmap(run_batch, jobs, chunk=1):
        for ctx, name, kind, info, loc, variant in batch:
            if kind != 'machinery':
                pty_verdicts.append((ctx, name, kind, loc, variant))
            rep.evaluations += 1
            rep.transitions += 1
            rep.nontrivial += 1
            states.add((ctx, kind))
            if kind == 'ok':
                rep.outcome('ok:' + ctx)
                rep.traces_validated += 1
            elif kind == 'machinery':
                rep.machinery.append(str(info))
            else:
                rep.outcome('deviation:' + kind)
                ctxname = {'U': 'unquoted', 'S': 'single-quote', 'D': 'double-quote', 'C': 'cd', 'CS': 'cd-single-quote', 'CD': 'cd-double-quote'}[ctx]
                locs = ('' if loc == 0 else ':in-' + LOCS[loc][0]) + ('' if variant == 0 else ':' + VARIANTS[variant])
                rep.violation('%s:%s%s:[%s]' % (kind, ctxname, locs, name_class(name)), {'context': ctxname, 'location': LOCS[loc][0], 'entry_name': 'PREFIX' + name, 'typed': ('cd ' if ctx in ('C', 'CS', 'CD') else 'vh-argv ') + CTX.get(ctx, '') + LOCS[loc][1] + 'PREFIX<TAB><Enter>'},
                              {'argv': ['PREFIX' + name]}, info, repro='create the entry, type the prefix after `vh-argv %s`, press TAB and Enter in an interactive cicada' % CTX.get(ctx, ''))
    for cmd, typed, missing, extra, shown in common.pmap(run_candidates, [0], chunk=1)[0]:
        rep.evaluations += 1
        rep.transitions += 1
        if missing or extra:
            rep.violation('candidates:%s:%s' % (cmd, 'missing' if missing else 'extra'), {'typed': '%s %s<TAB><TAB>' % (cmd, typed)}, {'missing': [], 'extra': []},
                          {'missing': missing, 'extra': extra, 'screen': shown})
            rep.outcome('deviation:candidates')
        else:
            rep.outcome('ok:candidates')
            rep.traces_validated += 1
    rep.states = len(states)
    rep.bounds.append({'layer': 'pty sessions', 'batches': len(jobs), 'complete': True})
    # in-process layer: the same steps composed from the real functions (word start, path completion, Enter processing,
    # planner) for EVERY name up to length 3 (thorough 4) in every context; bound to the real editor by recomputing every
    # verdict of the pty layer (conformance). If the two disagree anywhere the composition is not trusted and not used.
    vfile = os.path.join(common.scratch_root(), 'c20-pty-verdicts.json')
    with open(vfile, 'w') as f:
        json.dump(pty_verdicts, f)
    res = common.run_engine('C20', tier, [common.HELPERS, vfile])
    conf = res.get('conformance', {})
    rep.bounds.append({'layer': 'conformance of the in-process composition with the real editor', 'verdicts_recomputed': conf.get('checked', 0),
                       'disagreements': conf.get('mismatches', 0), 'complete': True})
    if conf.get('mismatches', 0) or conf.get('checked', 0) < len(pty_verdicts):
        rep.assumptions.append('in-process layer NOT used in this run: it disagrees with the real editor on %d of %d recomputed verdicts (examples: %s)'
                               % (conf.get('mismatches', 0), conf.get('checked', 0), json.dumps(conf.get('examples', [])[:3])[:600]))
        if not rep.viol:
            rep.machinery.append('C20 in-process composition disagrees with the real line editor on %d cases: %s' % (conf.get('mismatches', 0), json.dumps(conf.get('examples', [])[:2])[:800]))
    else:
        rep.traces_validated += conf.get('checked', 0)
        rep.merge_engine(res)
    rep.sample({'context': 'unquoted', 'entry_name': 'ab$ ', 'typed': 'vh-argv ab<TAB><Enter>'})
    if rep.outcomes.get('ok:U', 0) < 100:
        rep.machinery.append('vacuity guard: too few passing unquoted completions')


def replay(rec):
    """complete the recorded entry once more in a fresh interactive session"""
    c = rec['case']
    ctx = {'unquoted': 'U', 'single-quote': 'S', 'double-quote': 'D', 'cd': 'C', 'cd-single-quote': 'CS', 'cd-double-quote': 'CD'}[c['context']]
    loc = [l[0] for l in LOCS].index(c.get('location', 'cwd'))
    name = c['entry_name'][len('PREFIX'):]
    variant = VARIANTS.index(c['also_on_the_line']) if c.get('also_on_the_line') in VARIANTS else 0
    res = _run_batch((ctx, [name], loc, variant))
    for r in res:
        print(r)
    if any(r[2] not in ('ok', 'machinery') for r in res):
        print('VIOLATION property=C20 replay=(this file)')
        return 1
    return 0
