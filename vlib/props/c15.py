"""C15 — script arguments, functions, `source` and exit statuses behave as documented.

A. positional parameters: ALL argument lists of length 0..2 (thorough 0..3) over {x, 'a b', $, 'q', empty; single
   arguments and thorough also a;b a|b >f a& backslash #c " ` $(cmd) — a command substitution in a VALUE must not run} x the
   reference forms $0 $1 ${2} $3 $9 $@ "$@" p$1s "p${1}s" $1$2 '$1' in a script frame and in a function frame, as
   arguments of a command and inside the condition line of `if` and `while`; A'': `$1 WORD ${2}` with WORD = every
   metacharacter in every quoting style (the positional pass re-renders the line: WORD must come out unchanged);
B. functions: names f, g-h, _k x both header spellings x arities 0..2, defined in the script or in a sourced file;
C. `source` chains of depth 1..3 that define a variable, an alias, a function and change directory;
D. status propagation: ALL bodies of up to 3 (thorough 4) lines over {succeeding command, failing command, exit 5,
   set -e, function call (status 4), source (status 2)} at top level, inside an `if` body and inside the body of a `for` over two words.
Executed by the real binary; oracle = reference model of frames, persistence and status propagation."""
import itertools
import json
import os

from .. import common

ARGS = ['x', 'a b', '$', "'q'", '', 'a;b', 'a|b', '>f', 'a&', '\\', '#c', '"', '`', '$(vh-mark RAN 0)']
ARGS_T3 = ARGS[:11]                              # thorough: lists of three arguments over the first eleven values
ARGS_QUICK2 = ['x', 'a b', '$', "'q'", '']      # quick: lists of two arguments over the first five values only
SPECIAL = [('$(', 'value-with-command-substitution'), ('$', 'value-with-dollar'), ('"', 'value-with-double-quote'), ('`', 'value-with-backquote'), ('\\', 'value-with-backslash'), ("'", 'value-with-quote-character'), (';', 'value-with-semicolon'), ('|', 'value-with-pipe'), ('>', 'value-with-redirection-character'),
           ('&', 'value-with-ampersand'), ('#', 'value-with-hash')]
REFS = ['$0', '$1', '${2}', '$3', '$9', '$@', '"$@"', 'p$1s', '"p${1}s"', '$1$2', "'$1'"]


def shq(a):
    return "'" + a.replace("'", "'\\''") + "'"


def cq(a):
    """spell an argument of a function call inside a cicada script (the shell has no 'it'\\''s' concatenation)"""
    if "'" in a:
        assert not any(c in a for c in '"$`\\')
        return '"%s"' % a
    return "'%s'" % a


def expand_ref(ref, frame0, args):
    """reference: list of acceptable argv lists"""
    def arg(n):
        return args[n - 1] if 1 <= n <= len(args) else ''
    if ref == "'$1'":
        return [['$1']]
    if ref == '$0':
        text, quoted = frame0, False
    elif ref == '$1':
        text, quoted = arg(1), False
    elif ref == '${2}':
        text, quoted = arg(2), False
    elif ref == '$3':
        text, quoted = arg(3), False
    elif ref == '$9':
        text, quoted = arg(9), False
    elif ref == '$@':
        text, quoted = ' '.join(args), False
    elif ref == '"$@"':
        text, quoted = ' '.join(args), True
    elif ref == 'p$1s':
        text, quoted = 'p' + arg(1) + 's', False
    elif ref == '"p${1}s"':
        text, quoted = 'p' + arg(1) + 's', True
    else:
        text, quoted = arg(1) + arg(2), False
    if quoted:
        return [[text]]
    alts = [[text], text.split()]
    if text == '':
        alts.append([])
    return alts


def run_script_case(job):
    files, argv, cwd_rel = job
    d = common.fresh_case_dir()
    try:
        w = os.path.join(d, 'w')
        os.makedirs(os.path.join(w, 'sub'))
        for name, text in files.items():
            with open(os.path.join(w, name), 'w') as f:
                f.write(text)
        with open(os.path.join(d, 'cond'), 'w') as f:
            f.write('0000000000')
        r = common.run_cicada([os.path.join(w, 'main.sh')] + list(argv), d, cwd=w, stdin=b'', timeout=20)
        recs = []
        for x in r.records:
            if x.get('k') in ('argv', 'mark'):
                recs.append((x['k'], x.get('name'), tuple(x['argv']), x.get('cwd', '').replace(w, 'W')))
        return {'recs': recs, 'status': r.status, 'timed_out': r.timed_out, 'err': r.err.decode('utf-8', 'replace')[-300:], 'w': w}
    finally:
        common.drop_case_dir(d)


def arg_class(args):
    c = []
    if any(' ' in a for a in args):
        c.append('blank')
    if any('$' in a for a in args):
        c.append('dollar')
    if any("'" in a for a in args):
        c.append('quote')
    if any(a == '' for a in args):
        c.append('empty')
    return '+'.join(c) or 'plain'


# ---- D: status propagation reference
LINES = {'M0': 'vh-mark {i} 0', 'M3': 'vh-mark {i} 3', 'E5': 'exit 5', 'SE': 'set -e', 'F': 'ff', 'S': 'source ./inc.sh'}


def ref_status(body, tail=False):
    """returns (marks, exit_status); with tail a succeeding command follows the block; tail == 'for2': the body is the
    body of a `for` over two words (runs twice, `set -e` stays on, a failing command / exit ends everything)"""
    if tail == 'for2':
        m, st, completed = _ref_status(tuple(body) * 2, len(body))
    else:
        m, st, completed = _ref_status(body)
    if tail and completed:
        return m + ['after'], 0
    return m, st


def _ref_status(body, period=None):
    marks = []
    status = 0
    errexit = False
    for i, k in enumerate(body):
        if period:
            i = i % period
        if k == 'M0':
            marks.append(str(i + 1))
            status = 0
        elif k == 'M3':
            marks.append(str(i + 1))
            status = 3
        elif k == 'E5':
            return marks, 5, False
        elif k == 'SE':
            errexit = True
            status = 0
        elif k == 'F':
            marks.append('f')
            status = 4
        elif k == 'S':
            marks.append('s')
            status = 2
        if errexit and status != 0:
            return marks, status, False
    return marks, status, True


def run(rep, tier):
    nargs, nbody = (3, 4) if tier == 'thorough' else (2, 3)
    rep.rule = ('A: all argument lists of length 0..%d over %r x %d reference forms x {script, function} frames; B/C: function names x headers x arities, source chains 1..3; '
                'D: all bodies of up to %d lines over %r at top level, inside an if body and inside the body of a for over two words; non-trivial = case with at least one argument / two body lines; distinct = distinct script' % (nargs, ARGS, len(REFS), nbody, sorted(LINES)))
    rep.assumptions = [
        'an unquoted reference may yield the value as one argument or split at blanks; "$@" is compared as the arguments joined by single blanks (cicada substitutes the joined text)',
        'functions are only called after their definition; set -e is not combined with && / || lists or conditions',
        'plain `exit` without a number is not judged (the statement defines `exit N`)',
    ]
    jobs, meta = [], []
    # A
    arglists = [()]
    for n in range(1, nargs + 1):
        arglists += list(itertools.product(ARGS if n == 1 else ARGS_QUICK2 if tier != 'thorough' else ARGS if n == 2 else ARGS_T3, repeat=n))
    for args in arglists:
        for ref in REFS:
            jobs.append(({'main.sh': 'vh-argv %s\n' % ref}, args, None))
            meta.append(('A', 'script', args, ref))
            call = 'fn ' + ' '.join(cq(a) for a in args)
            jobs.append(({'main.sh': 'function fn {\n    vh-argv %s\n}\n%s\n' % (ref, call)}, (), None))
            meta.append(('A', 'function', args, ref))
    # A': the same references inside the CONDITION line of if / while (expanded by a separate code path), script and function frames
    cond_lists = [()] + [(a,) for a in ARGS] + list(itertools.product(['x', 'a b'], repeat=2))
    if tier == 'thorough':
        cond_lists = arglists
    for args in cond_lists:
        for ref in REFS:
            for kw, tail in (('if', 'fi'), ('while', 'done')):
                body = '%s vh-argv %s\n    vh-mark in 0\n    %s\n%s\n' % (kw, ref, 'break' if kw == 'while' else 'vh-mark in2 0', tail)
                jobs.append(({'main.sh': body}, args, None))
                meta.append(('A', 'script', args, ref))
                call = 'fn ' + ' '.join(cq(a) for a in args)
                jobs.append(({'main.sh': 'function fn {\n' + ''.join('    ' + l + '\n' for l in body.splitlines()) + '}\n%s\n' % call}, (), None))
                meta.append(('A', 'function', args, ref))
    # A'': a positional parameter NEXT TO other words: the line is re-rendered by the positional pass, the other words
    # (every metacharacter in every quoting style, as in C01) must come out unchanged
    from . import c01
    companions = []
    for t in c01.SIGMA + ['a b', 'a"b', "it's", 'x>y', 'a\\b']:
        for st in c01.STYLES:
            a = c01.write_arg(t, st)
            if a is not None and '\t' not in a and '\n' not in a:
                companions.append((t, a))
    for t, a in companions:
        jobs.append(({'main.sh': 'vh-argv $1 %s ${2}\n' % a}, ('x', 'y'), None))
        meta.append(('A2', 'script', t, a))
        if tier == 'thorough':
            jobs.append(({'main.sh': 'function fn {\n    vh-argv $1 %s ${2}\n}\nfn x y\n' % a}, (), None))
            meta.append(('A2', 'function', t, a))
    # B
    for name in ('f', 'g-h', '_k'):
        for header in ('function %s {', 'function %s() {'):
            for arity in (0, 1, 2):
                call = name + ''.join(' c%d' % k for k in range(arity))
                body = 'vh-argv "$0" "$1" "$2"'
                jobs.append(({'main.sh': (header % name) + '\n    ' + body + '\n}\n' + call + '\n'}, (), None))
                meta.append(('B', 'in-script', name, arity))
                jobs.append(({'main.sh': 'source ./lib.sh\n' + call + '\n', 'lib.sh': (header % name) + '\n    ' + body + '\n}\n'}, (), None))
                meta.append(('B', 'in-sourced-file', name, arity))
    # C
    for depth in (1, 2, 3):
        files = {'main.sh': 'source ./s1.sh\nvh-argv "$SV1$SV2$SV3"\nav\nfv\nvh-mark cwd 0\n'}
        for k in range(1, depth + 1):
            nxt = 'source ./s%d.sh\n' % (k + 1) if k < depth else ''
            files['s%d.sh' % k] = 'SV%d=v%d\n' % (k, k) + nxt
        files['s%d.sh' % depth] += "alias av='vh-argv2 aliased'\nfunction fv {\n    vh-argv2 func\n}\ncd sub\n"
        jobs.append((files, (), None))
        meta.append(('C', depth))
    # D
    bodies = []
    for n in range(1, nbody + 1):
        bodies += list(itertools.product(sorted(LINES), repeat=n))
    for body in bodies:
        for inside_if in (False, True, 'for2'):
            lines = [LINES[k].format(i=i + 1) for i, k in enumerate(body)]
            text = 'function ff {\n    vh-mark f 4\n}\n'
            if inside_if == 'for2':
                text += 'for v in p q\n' + ''.join('    ' + l + '\n' for l in lines) + 'done\nvh-mark after 0\n'
            elif inside_if:
                text += 'if vh-cond 1\n' + ''.join('    ' + l + '\n' for l in lines) + 'fi\nvh-mark after 0\n'
            else:
                text += ''.join(l + '\n' for l in lines)
            jobs.append(({'main.sh': text, 'inc.sh': 'vh-mark s 2\n'}, (), None))
            meta.append(('D', body, inside_if))
    results = common.pmap(run_script_case, jobs, chunk=6)
    states = set()
    for (files, argv, _), m, o in zip(jobs, meta, results):
        rep.evaluations += 1
        rep.transitions += 1
        states.add(repr((o['recs'], o['status'])))
        dev = None
        exp = None
        cls = ''
        if o['timed_out']:
            dev = 'hang'
        elif m[0] == 'A':
            _, frame, args, ref = m
            if args:
                rep.nontrivial += 1
            frame0 = (o['w'] + '/main.sh') if frame == 'script' else 'fn'
            exp = expand_ref(ref, frame0, list(args))
            got = [r[2] for r in o['recs'] if r[1] == 'vh-argv']
            cls = '%s:%s:%s' % (frame + ('-condition' if 'vh-mark in 0' in files.get('main.sh', '') else ''), ref, arg_class(args))
            if len(got) != 1 or list(got[0]) not in exp:
                dev = 'positional'
                # the value of a positional parameter is inserted as text and parsed / expanded again: one cause for
                # every value that contains a quote character or a dollar sign, whatever the reference form
                for ch, name in SPECIAL:
                    if any(ch in a for a in args):
                        dev, cls = 'positional-value-reparsed', name
                        break
        elif m[0] == 'A2':
            _, frame, t, a = m
            rep.nontrivial += 1
            exp = [['x', t, 'y']]
            got = [list(r[2]) for r in o['recs'] if r[1] == 'vh-argv']
            cls = '%s:%s' % (frame, 'quoted' if a[:1] in ('"', "'") else 'escaped')
            if got != exp:
                dev = 'word-next-to-positional-parameter'
        elif m[0] == 'B':
            _, where, name, arity = m
            exp = [[name] + ['c%d' % k for k in range(arity)] + [''] * (2 - arity)]
            got = [list(r[2]) for r in o['recs'] if r[1] == 'vh-argv']
            cls = '%s:%s' % (where, 'dash' if '-' in name else 'underscore' if '_' in name else 'plain')
            if got != exp:
                dev = 'function-call'
        elif m[0] == 'C':
            depth = m[1]
            exp = [('argv', 'vh-argv', (''.join('v%d' % k for k in range(1, depth + 1)),)), ('argv', 'vh-argv2', ('aliased',)), ('argv', 'vh-argv2', ('func',)), ('mark', 'vh-mark', ('cwd', '0'))]
            got = [r[:3] for r in o['recs']]
            cls = 'depth%d' % depth
            if got != exp:
                dev = 'source-persistence'
            elif o['recs'][-1][3] != 'W/sub':
                dev = 'source-cd-not-persistent'
        else:
            _, body, inside_if = m
            if len(body) >= 2:
                rep.nontrivial += 1
            marks, st = ref_status(body, tail=inside_if)
            exp = {'marks': marks, 'exit_status': st}
            got = [r[2][0] for r in o['recs'] if r[0] == 'mark']
            cls = '%s:%s' % ('for-body' if inside_if == 'for2' else 'if-body' if inside_if else 'top', '+'.join(sorted(set(body))))
            if got != marks:
                dev = 'status-sequence'
            elif o['status'] != st:
                dev = 'exit-status'
        if dev is None:
            rep.outcome('ok:' + m[0])
            rep.traces_validated += 1
        else:
            rep.outcome('deviation:' + dev)
            rep.violation('%s:%s' % (dev, cls), {'files': files, 'script_args': list(argv)}, exp,
                          {'records': [r[:3] for r in o['recs']], 'status': o['status'], 'stderr': o['err']},
                          repro='cicada main.sh %s' % ' '.join(shq(a) for a in argv))
    rep.states = len(states)
    rep.bounds.append({'layer': 'real binary', 'cases': len(jobs), 'max_args': nargs, 'max_body_lines': nbody, 'complete': True})
    rep.sample({'files': jobs[len(jobs) - 5][0]})
    if rep.outcomes.get('ok:D', 0) < 20 or rep.outcomes.get('ok:A', 0) < 50:
        rep.machinery.append('vacuity guard: too few passing cases')


def replay(rec):
    """run the recorded script files with the recorded arguments; prints what the helpers received"""
    c = rec['case']
    o = run_script_case((c['files'], tuple(c.get('script_args', [])), None))
    print(json.dumps({'records': [r[:3] for r in o['recs']], 'status': o['status'], 'stderr': o['err']}, indent=1))
    print('expected:', json.dumps(rec.get('expected')))
    same = rec.get('observed', {}).get('records') == [list(r[:3]) if not isinstance(r[2], tuple) else [r[0], r[1], list(r[2])] for r in o['recs']]
    if same:
        print('VIOLATION property=C15 replay=(this file)   (same observation as recorded)')
        return 1
    return 0
