"""C16 — a line means the same at the prompt, with -c, in a script, function or source.

in-process (Rust engine harness/src/props/c16.rs): for EVERY complete line up to length 4 (thorough 6) over a
14-symbol alphabet the plans of the -c path and of the script path (after the positional-parameter pass) must be
equal (argv, redirections, assignments, background flag, list structure).
process level (here): bounded line sets taken from C01, C03, C04, C10-C12 are run through -c, a script file, a
function body and a sourced file by the real binary and compared with the -c run on helper records, created files,
output and exit status. The same lines are also typed at the interactive prompt on a pty."""
import itertools
import os

from .. import common, ptydrv
from . import c01

MODES = ['c', 'script', 'function', 'source', 'prompt']


def lines(tier):
    out = []
    for t in [''] + c01.SIGMA:
        for st in c01.STYLES:
            a = c01.write_arg(t, st)
            if a is None or '\t' in a:
                continue
            out.append('vh-argv x %s y' % a)
    for n in (1, 2, 3):
        for ops in itertools.product([';', '&&', '||'], repeat=n - 1):
            for stats in itertools.product((0, 1), repeat=n):
                parts = []
                for i, s in enumerate(stats):
                    if i:
                        parts.append(ops[i - 1])
                    parts.append('vh-mark %d %d $?' % (i + 1, s))
                out.append(' '.join(parts))
    out += ['vh-io t > f1', 'vh-io t >> f1', 'vh-io t 2> f1', 'vh-io t 2>&1', 'vh-io t 1>&2', 'vh-io t < g', 'vh-io t <<< w',
            'vh-io t > f1 2>&1', 'vh-io a | vh-io b > f1', 'vh-io t >f1', 'vh-io t 2>>f1']
    out += ['vh-argv $A', 'vh-argv "${A}x"', "vh-argv '$A'", 'vh-argv {a,b}c', 'vh-argv {1..3}', 'vh-argv ~', 'vh-argv *', 'vh-argv a\\ b',
            'vh-argv a\;b', 'vh-argv "a b" c', 'vh-argv $(vh-emit 0)', 'vh-argv `vh-emit 0`', 'A=1 vh-argv x', 'B=2 ; vh-argv $B', '1 + 2 * 3',
            'vh-argv \\\\', "vh-argv 'a'\\''b'", 'vh-argv a#b #c', 'vh-argv x & ']
    # comment-like text: `#` after a blank or tab inside quotes / escaped is data on every path; a real comment ends the line on every path
    for q in ("'", '"'):
        for inner in ('# b', 'a # b', 'a #b', '#', ' #', 'a\t#b', 'a # b # c'):
            out.append('vh-argv %s%s%s c' % (q, inner, q))
    out += ['vh-argv a\\ #b c', 'vh-argv a\\ \\#b c', 'vh-argv "a # b" && vh-argv2 done', "vh-argv 'x #y' z > f1", 'vh-argv "p #q" | vh-io r', 'vh-argv a # b', 'vh-argv a #',
            '# only a comment', 'vh-argv a ; # c', 'vh-argv a ;# c', 'vh-argv "a" #"b', "V='a # b' ; vh-argv \"$V\"", 'vh-argv $(vh-emit 0) # c', '  vh-argv lead', 'vh-argv trail   ', '\tvh-argv tab']
    # runs of blanks that are data, an escaped blank at the end of the line, escaped `$` / `|` as the last word,
    # `!!` inside single quotes next to an escaped blank
    out += ['vh-argv "a  b"', "vh-argv 'a   b' c", 'vh-argv a\\ \\ b', 'vh-argv x "  " y', 'vh-argv a\\ ', 'vh-argv x \\$HOME', 'vh-argv x \\|', 'vh-argv x \\$',
            "vh-argv '!!' a\\ b", "vh-argv '!!'", 'vh-argv \\$1', 'vh-argv a\\$1 \\$2x']
    if tier == 'thorough':
        for t in itertools.product(c01.SIGMA, repeat=2):
            t = ''.join(t)
            if '\t' in t:
                continue
            a = c01.write_arg(t, 'esc')
            out.append('vh-argv %s' % a)
    seen = set()
    res = []
    for l in out:
        if l not in seen and '\n' not in l:
            seen.add(l)
            res.append(l)
    return res


def snapshot(d, r):
    files = {}
    for name in sorted(os.listdir(d)):
        if name in ('g', 'ab', 'a', 'b'):
            continue
        p = os.path.join(d, name)
        if os.path.isfile(p):
            with open(p, 'rb') as f:
                files[name] = f.read()
    recs = [(x.get('k'), x.get('name'), tuple(x.get('argv', [])), x.get('stdin')) for x in r.records]
    return {'records': recs, 'files': files, 'stdout': r.out, 'stderr': r.err, 'status': r.status}


def run_line(line):
    res = {}
    for mode in MODES:
        if mode == 'prompt' and '\t' in line:
            continue        # a TAB typed at the prompt is the completion key, not text
        d = common.fresh_case_dir()
        try:
            w = os.path.join(d, 'w')     # the working directory holds only the data files
            os.makedirs(w)
            for f, content in (('g', 'from-g\n'), ('ab', 'x'), ('a', 'x'), ('b', 'x')):
                with open(os.path.join(w, f), 'w') as fh:
                    fh.write(content)
            with open(os.path.join(d, 'emit.0'), 'w') as fh:
                fh.write('emitted text\n')
            env = {'A': 'val a', 'HOME': '/HOMEMARK'}
            if mode == 'prompt':
                # typed at the interactive prompt of the real binary on a pty; the status is read with a second line
                ses = ptydrv.Session(d, env=env, cwd=w)
                try:
                    if not ses.start():
                        res[mode] = 'no-prompt'
                        continue
                    # a session always has a previous command (history expansion of `!!` needs one to show)
                    ses.line('vh-mark WARMUP 0', timeout=5.0)
                    ok = ses.line(line, timeout=10.0)
                    if ok:
                        ses.line('vh-mark PROMPTSTATUS 0 $?', timeout=5.0)
                    recs = ses.records()
                    status = None
                    keep = []
                    for x in recs:
                        if x.get('k') == 'mark' and x['argv'][:1] == ['WARMUP']:
                            continue
                        if x.get('k') == 'mark' and x['argv'][:1] == ['PROMPTSTATUS']:
                            status = int(x['argv'][2]) if len(x['argv']) > 2 and x['argv'][2].isdigit() else None
                        else:
                            keep.append(x)

                    class R:
                        pass
                    r = R()
                    r.records, r.out, r.err, r.status = keep, b'', b'', status
                    res[mode] = snapshot(w, r) if ok else 'hang'
                finally:
                    ses.kill()
                continue
            if mode == 'c':
                argv = ['-c', line]
            else:
                if mode == 'script':
                    text = line + '\n'
                elif mode == 'function':
                    text = 'function ff {\n%s\n}\nff\n' % line
                else:
                    with open(os.path.join(d, 'inc.sh'), 'w') as fh:
                        fh.write(line + '\n')
                    text = 'source %s/inc.sh\n' % d
                with open(os.path.join(d, 's.sh'), 'w') as fh:
                    fh.write(text)
                argv = [os.path.join(d, 's.sh')]
            r = common.run_cicada(argv, d, cwd=w, env=env, timeout=20)
            if r.timed_out:
                res[mode] = 'hang'
            else:
                res[mode] = snapshot(w, r)
        finally:
            common.drop_case_dir(d)
    return line, res


def sort_bg(recs):
    return sorted(recs, key=repr)


def run(rep, tier):
    rep.rule = ('pure layer: every complete line over the 14-symbol alphabet up to the stated length; process layer: the listed line sets x 4 entry points; '
                'non-trivial = the line plans at least one command; distinct = distinct line')
    rep.assumptions = [
        'lines without positional parameters and without newline; lines that parse_line reports as incomplete are skipped (they cannot be submitted at the prompt)',
        'script path = scripting::expand_args followed by the same run_command_line as -c; function and source bodies take the same path',
        'records of background commands may appear in any order; the `-c` run is the reference',
        'prompt entry point: the line is typed into the real interactive binary on a pty (records, files and status are compared; output is not separable on a terminal); lines with !! TAB or control characters are not in the sets',
    ]
    res = common.run_engine('C16', tier)
    rep.merge_engine(res)
    ls = lines(tier)
    for line, r in common.pmap(run_line, ls, chunk=4):
        rep.evaluations += 1
        rep.transitions += len(MODES)
        ref = r['c']
        bad = False
        for mode in MODES[1:]:
            if mode not in r:
                continue
            o = r[mode]
            if o == 'no-prompt':
                rep.machinery.append('pty: no prompt')
                continue
            if o == 'hang' or ref == 'hang':
                if o != ref:
                    rep.violation('entry:%s:hang' % mode, {'line': line, 'mode': mode}, 'same as -c', 'hang in one entry point only')
                    bad = True
                continue
            for key in ('records', 'files', 'stdout', 'status', 'stderr'):
                if mode == 'prompt' and key in ('stdout', 'stderr'):
                    continue      # not separable on a terminal
                a, b = ref[key], o[key]
                if key == 'records':
                    if mode == 'prompt':
                        # at the prompt an unredirected stdin is the terminal (not recorded), with -c it is the harness's empty input
                        a = [x[:3] + (None if y[3] is None and x[3] in (b'', None) else x[3],) for x, y in zip(a, b)] if len(a) == len(b) else a
                    a, b = sort_bg(a), sort_bg(b)
                if key == 'stderr':
                    # diagnostics may name the script file; compare only whether something was written
                    a, b = bool(a), bool(b)
                if a != b:
                    rep.outcome('differs:%s:%s' % (mode, key))
                    rep.violation('entry:%s:%s' % (mode, key), {'line': line, 'mode': mode},
                                  {'-c ' + key: ref[key]}, {mode + ' ' + key: o[key]},
                                  repro='compare `cicada -c %s` with the line in a %s' % (common.shquote(line), mode))
                    bad = True
                    break
        if not bad:
            rep.outcome('same-in-all-entry-points')
            rep.traces_validated += 1
    rep.bounds.append({'layer': 'real binary: line sets x {-c, script, function, source}', 'lines': len(ls), 'complete': True})
    rep.sample({'line': ls[len(ls) // 2], 'modes': MODES})
    if rep.outcomes.get('same:identical-text', 0) == 0:
        rep.machinery.append('vacuity guard: pure layer saw no identical-text case')
