"""C13 — results of expansions are data and are never re-read as shell syntax.

in-process (Rust engine harness/src/props/c13.rs): 22 payloads with operator characters x 6 deliveries ($V exported,
${V}, $V shell-local, $(cmd), `cmd`, file name matched by *) x {unquoted, double-quoted} x 6 argument positions,
planned by the real code with the substitutions really executed: structure of the template, no background, no
redirection, payload only as argument text.
process level (here): the same payloads/deliveries at the positions `last` and `last before |` executed by the real
binary: the helper runs exactly once in the foreground with the payload in its argv and no file appears."""
import os

from .. import common

PAYLOADS = ["|", "&", ";", "<", ">", "#", "a>b", "a|b", "x &", "<f", ">f", ">>f", "2>&1", ";x", "#c", "a b", "&&", "||", "<<<", "a;b", "1>&2", "a&"]
DELIVERY = ["$V", "${V}", "$(vh-emit K)", "`vh-emit K`", "glob", "$W-local", "$(printf %s 'P')", "`printf %s 'P'`"]


def setup(d):
    for k, p in enumerate(PAYLOADS):
        with open(os.path.join(d, 'emit.%d' % k), 'w') as f:
            f.write(p + '\n')
        if '/' not in p:
            os.makedirs(os.path.join(d, 'g%d' % k))
            with open(os.path.join(d, 'g%d' % k, p), 'w') as f:
                f.write('x')
    with open(os.path.join(d, 'f'), 'w') as f:
        f.write('input-file\n')


def build_cases():
    cases = []
    for k, p in enumerate(PAYLOADS):
        for dl in DELIVERY:
            for dq in (False, True):
                for pos in ('last', 'before-pipe'):
                    pre = ''
                    if dl in ('$V', '${V}'):
                        pre = "V='%s' ; " % p
                        c = dl
                    elif dl == '$W-local':
                        pre = "W='%s' ; " % p
                        c = '$W'
                    elif dl == 'glob':
                        c = 'g%d/*' % k
                    elif 'printf' in dl:
                        c = dl.replace("'P'", "'%s'" % p)
                    else:
                        c = dl.replace('K', str(k))
                    if dq:
                        c = '"%s"' % c
                    line = pre + ('vh-argv y %s' % c if pos == 'last' else 'vh-argv y %s | vh-argv2' % c)
                    if dl == 'glob':
                        alts = [['y', 'g%d/*' % k]] if dq else [['y', 'g%d/%s' % (k, p)]]
                    else:
                        alts = [['y', p]]
                        if not dq:
                            alts.append(['y'] + p.split())
                    cases.append({'line': line, 'alts': alts, 'payload': p, 'delivery': dl, 'dq': dq, 'pos': pos})
    return cases


def run_batch(batch):
    d = common.fresh_case_dir()
    try:
        setup(d)
        before = set(os.listdir(d)) | {'vh.log', 'home'}
        env = {'V': 'init'}

        def check(recs, c):
            mine = [x for x in recs if x.get('k') == 'argv' and x.get('name') == 'vh-argv']
            other = [x for x in recs if x.get('k') == 'argv' and x.get('name') == 'vh-argv2']
            emits = [x for x in recs if x.get('k') == 'emit']
            if len(mine) != 1:
                return 'helper-ran-%d-times' % len(mine)
            if mine[0]['argv'] not in c['alts']:
                return 'argv'
            if len(other) != (1 if c['pos'] == 'before-pipe' else 0):
                return 'other-stage'
            if 'vh-emit' in c['line'] and len(emits) != 1:
                return 'substitution-ran-%d-times' % len(emits)
            return 'ok'
        out = []
        for c in batch:
            try:
                os.unlink(os.path.join(d, 'vh.log'))
            except OSError:
                pass
            r = common.run_cicada(['-c', c['line']], d, env=env, timeout=15)
            new = sorted(set(os.listdir(d)) - before)
            if r.timed_out:
                k = 'hang'
            elif new:
                k = 'file-created'
                for f in new:
                    os.unlink(os.path.join(d, f))
            else:
                k = check(r.records, c)
            out.append((c, k, {'argv': [x['argv'] for x in r.records if x.get('k') == 'argv'], 'new_files': new,
                               'status': r.status, 'stderr': r.err[-200:].decode('utf-8', 'replace')}))
        return out
    finally:
        common.drop_case_dir(d)


def run(rep, tier):
    rep.rule = ('22 payloads with operator characters x 6 deliveries x {unquoted, double-quoted} x 6 argument positions (plan level), '
                'and x 2 positions executed; non-trivial = every case (each payload contains an operator character or a blank); distinct = distinct line')
    rep.assumptions = [
        'payload list as in the engine (every operator character alone and embedded); values without leading/trailing blanks (command substitution trims them)',
        'unquoted results may be split at blanks (statement silent); double-quoted results must be exactly one argument',
        'plan level executes the substitution commands for real (vh-emit), with few workers',
    ]
    res = common.run_engine('C13', tier, [common.HELPERS])
    rep.merge_engine(res)
    cases = build_cases()
    batches = [cases[i:i + 12] for i in range(0, len(cases), 12)]
    for sub in common.pmap(run_batch, batches, chunk=1):
        for c, k, obs in sub:
            rep.evaluations += 1
            rep.transitions += 1
            if k == 'ok':
                rep.outcome('exec-data')
                rep.traces_validated += 1
            else:
                rep.outcome('exec-' + k)
                rep.violation('exec-%s:%s:%s:%s:%s' % (k, c['delivery'], 'dq' if c['dq'] else 'unquoted', c['payload'], c['pos']),
                              {'line': c['line'], 'payload': c['payload'], 'delivery': c['delivery']},
                              {'argv_one_of': c['alts'], 'new_files': []}, obs, repro='cicada -c %s' % common.shquote(c['line']))
    rep.bounds.append({'layer': 'real binary -c: payloads x deliveries x quote x {last, before-pipe}', 'cases': len(cases), 'complete': True})
    if rep.traces_validated < 100:
        rep.machinery.append('vacuity guard: too few executed cases agreed')
