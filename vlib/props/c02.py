"""C02 — pipelines deliver every byte, terminate, and report the last stage's status.

The finishing order of the stages is CONTROLLED, not timed: every external stage is the helper vh-stage, which moves
its data, closes stdin/stdout and then blocks on a private exit-gate FIFO; the explorer releases the gates in the chosen
order, waiting for each released stage to be gone before the next release. Enumerated: n = 1..4 stages x ALL n! exit
orders x payload sizes from 0 to several pipe buffers x last-stage endings; all kind vectors (copier, non-reader,
builtin, failing, not-found) for n <= 3; all 256 exit codes for n in {1,2}; executed by the real binary.
Oracle: byte count and checksum at the sink, every stage started exactly once, the shell returns only after all
stages are gone (an early return is seen deterministically because unreleased gates keep stages alive), status of
the last stage (128+signal), termination."""
import itertools
import os
import subprocess
import time

from .. import common

PAYLOADS = [0, 1, 4095, 65536, 65537, 262144]
KINDS = ['copy', 'noread', 'alias', 'fail', 'notfound', 'killed']
ALIAS_TEXT = b"alias q='r'\n"


def byte_at(i):
    return ((i * 2654435761) % (1 << 64) >> 7) & 0xff


_payload_cache = {}


def payload(n):
    if n not in _payload_cache:
        _payload_cache[n] = bytes(byte_at(i) for i in range(n))
    return _payload_cache[n]


def checksum(data):
    s = 0
    for b in data:
        s = (s * 31 + b) % (1 << 64)
    return s


def proc_gone(pid):
    try:
        with open('/proc/%d/stat' % pid) as f:
            st = f.read()
        return st[st.rfind(')') + 2] in 'ZX'
    except (FileNotFoundError, ProcessLookupError):
        return True


def run_case(case, limit=3.0):
    kinds, size, order, ending = case
    n = len(kinds)
    d = common.fresh_case_dir()
    try:
        gates = []
        parts = []
        for i, k in enumerate(kinds):
            role = 'gen' if i == 0 else ('sink' if i == n - 1 else 'copy')
            if n == 1:
                role = 'gen'
            end = ending if i == n - 1 else 'e0'
            if k in ('copy', 'fail', 'noread', 'killed'):
                g = os.path.join(d, 'gate%d' % i)
                os.mkfifo(g)
                gates.append((i, g))
                if k == 'fail' and i != n - 1:
                    end = 'e1'
                if k == 'fail' and i == n - 1:
                    end = 'e1'
                if k == 'killed':
                    end = 's15'
                r = 'noread' if k == 'noread' else role
                parts.append('vh-stage %d %s %d %s %s' % (i, r, size, g, end))
            elif k == 'alias':
                parts.append('alias')
            else:
                parts.append('vh-nosuchcmd')
        line = 'alias q=r ; ' + ' | '.join(parts)
        env = common.base_env(d)
        os.makedirs(env['HOME'], exist_ok=True)
        errf = open(os.path.join(d, 'stderr.txt'), 'wb')
        p = subprocess.Popen([common.CICADA, '-c', line], cwd=d, env=env, stdin=subprocess.DEVNULL,
                             stdout=subprocess.DEVNULL, stderr=errf, start_new_session=True)
        gated = [i for i, _ in gates]
        # wait until every gated stage has moved its data and waits at its gate
        t0 = time.time()
        moved = {}
        starts = {}
        problem = None
        while time.time() - t0 < limit:
            recs = common.read_records(env['VH_LOG'])
            moved = {int(r['idx']): r for r in recs if r.get('k') == 'stage' and r.get('phase') == 'moved'}
            starts = {}
            for r in recs:
                if r.get('k') == 'stage' and r.get('phase') == 'start':
                    starts.setdefault(int(r['argv'][0]), []).append(r['pid'])
            if all(i in moved for i in gated):
                break
            if p.poll() is not None:
                break
            time.sleep(0.003)
        else:
            problem = 'stages-did-not-reach-gates'
        early = None
        release_order = [i for i in order if i in gated]
        if problem is None:
            if p.poll() is not None and gated and not all(i in moved for i in gated):
                problem = 'shell-exited-before-stages-moved'
        if problem is None:
            for pos, i in enumerate(release_order):
                if p.poll() is not None:
                    early = 'shell returned while stage(s) %r were still waiting at their gates' % release_order[pos:]
                    break
                g = dict(gates)[i]
                pid = moved[i]['pid']
                t1 = time.time()
                fd = None
                while time.time() - t1 < 10:
                    try:
                        fd = os.open(g, os.O_WRONLY | os.O_NONBLOCK)
                        break
                    except OSError:
                        if proc_gone(pid):
                            break
                        time.sleep(0.002)
                if fd is not None:
                    os.close(fd)
                t1 = time.time()
                while not proc_gone(pid) and time.time() - t1 < 10:
                    time.sleep(0.001)
                if not proc_gone(pid):
                    problem = 'released-stage-did-not-exit'
                    break
        hang = False
        try:
            p.wait(timeout=limit)
        except subprocess.TimeoutExpired:
            hang = True
            try:
                os.killpg(p.pid, 9)
            except OSError:
                pass
            p.kill()
            p.wait()
        errf.close()
        with open(os.path.join(d, 'stderr.txt'), 'rb') as f:
            err = f.read()
        out = b''
        # unblock leftovers
        for r in common.read_records(env['VH_LOG']):
            if r.get('k') == 'stage' and 'pid' in r and r.get('phase') == 'moved' and not proc_gone(r['pid']):
                try:
                    os.kill(r['pid'], 9)
                except OSError:
                    pass
        status = p.returncode
        if status is not None and status < 0:
            status = 128 - status
        recs = common.read_records(env['VH_LOG'])
        moved = {int(r['idx']): r for r in recs if r.get('k') == 'stage' and r.get('phase') == 'moved'}
        for r in recs:
            if r.get('k') == 'stage' and 'pid' in r and not proc_gone(r['pid']):
                try:
                    os.kill(r['pid'], 9)
                except OSError:
                    pass
        return case, line, {'problem': problem, 'early': early, 'hang': hang, 'status': status, 'starts': {k: len(v) for k, v in starts.items()},
                            'moved': {k: (v['nread'], v['sum'], v['nwritten']) for k, v in moved.items()},
                            'out': out[-200:], 'err': err[-300:].decode('utf-8', 'replace')}
    finally:
        common.drop_case_dir(d)


def run_case_slow(case):
    return run_case(case, limit=20.0)


def expected(case):
    kinds, size, order, ending = case
    n = len(kinds)
    data = b''
    flows = []
    for i, k in enumerate(kinds):
        if k in ('copy', 'fail', 'killed'):
            if i == 0:
                data = payload(size)
            # middle copies forward; the last one is the sink
        elif k == 'noread':
            data = b''
        elif k == 'alias':
            data = ALIAS_TEXT
        else:
            data = b''
        flows.append(data)
    last = kinds[-1]
    if last in ('copy', 'noread', 'fail', 'killed'):
        if last == 'fail':
            st = 1
        elif last == 'killed':
            st = 128 + 15
        elif ending.startswith('e'):
            st = int(ending[1:])
        else:
            st = 128 + int(ending[1:])
        if last == 'noread' and not ending.startswith('e'):
            st = 128 + int(ending[1:])
    elif last == 'alias':
        st = 0
    else:
        st = 127
    sink_in = flows[-2] if n >= 2 else None
    return {'status': st, 'sink_in': sink_in}


def cases(tier):
    out = []
    nmax = 4
    endings = ['e0', 'e3', 's15']
    for n in range(1, nmax + 1):
        for order in itertools.permutations(range(n)):
            for size in PAYLOADS:
                if n == 4 and tier == 'quick' and size not in (0, 65537):
                    continue
                for ending in (endings if (n <= 3 or tier == 'thorough') else ['e0', 'e3']):
                    out.append((('copy',) * n, size, order, ending))
    # all kind vectors for n <= 3, big payload (writers block), two orders
    for n in range(1, 4):
        for kinds in itertools.product(KINDS, repeat=n):
            if all(k == 'copy' for k in kinds):
                continue
            orders = [tuple(range(n)), tuple(reversed(range(n)))]
            if tier == 'thorough':
                orders = list(itertools.permutations(range(n)))
            for order in orders:
                out.append((kinds, 65537, order, 'e0'))
    # every exit code and a set of terminating signals for the last stage, n in {1, 2}
    codes = range(256) if tier == 'thorough' else list(range(0, 256, 5)) + [1, 2, 126, 127, 128, 254, 255]
    for n in (1, 2):
        for c in sorted(set(codes)):
            out.append((('copy',) * n, 1, tuple(reversed(range(n))), 'e%d' % c))
        for s in (1, 2, 3, 6, 9, 13, 14, 15):
            out.append((('copy',) * n, 1, tuple(range(n)), 's%d' % s))
    if tier == 'thorough':
        for order in itertools.permutations(range(5)):
            out.append((('copy',) * 5, 65537, order, 'e3'))
        for order in list(itertools.permutations(range(6)))[::7]:
            out.append((('copy',) * 6, 65537, order, 'e0'))
    return out


def run(rep, tier):
    rep.rule = ('pipelines of n = 1..4 stages x all n! gate-release orders x payload sizes %r x last-stage endings; all kind vectors over %r for n <= 3; '
                'exit codes / signals of the last stage for n in {1,2}; non-trivial = n >= 2; distinct = distinct (kinds, size, order, ending)' % (PAYLOADS, KINDS))
    rep.assumptions = [
        'exit order is forced by exit gates (FIFOs): a stage exits only when the explorer releases it and the next release waits until the previous stage is gone; builtin and not-found stages exit on their own',
        'helpers ignore SIGPIPE (Rust runtime) and see EPIPE: a writer upstream of a non-reader stops writing and proceeds to its gate',
        'thorough adds n = 5 (all 120 orders) and a seventh of the 720 orders for n = 6',
    ]
    cs = cases(tier)
    seen_orders = set()
    results = []
    stuck = 0
    done = 0
    for w in range(0, len(cs), 120):
        wave = common.pmap(run_case, cs[w:w + 120], chunk=4)
        # a case that looks stuck is confirmed alone with a 4x limit before it is believed
        suspects = [i for i, (case, line, obs) in enumerate(wave) if obs['problem'] or obs['hang']]
        for i in suspects[:3]:
            wave[i] = run_case_slow(wave[i][0])
            if wave[i][2]['problem'] or wave[i][2]['hang']:
                stuck += 1
        if suspects and stuck == 0:
            # none of the re-run suspects was stuck again: timing noise; re-run the others as well
            for i in suspects[3:]:
                wave[i] = run_case_slow(wave[i][0])
        results.extend(wave)
        done = w + len(wave)
        if stuck >= 3:
            break
    if done < len(cs):
        rep.cap_hit = True
        rep.bounds.append({'layer': 'stopped early', 'reason': '%d confirmed hangs: the remaining %d cases were not run' % (stuck, len(cs) - done)})
    for case, line, obs in results:
        kinds, size, order, ending = case
        n = len(kinds)
        rep.evaluations += 1
        rep.transitions += n
        if n >= 2:
            rep.nontrivial += 1
        exp = expected(case)
        cls = 'n%d:%s' % (n, 'all-copy' if all(k == 'copy' for k in kinds) else 'mixed')
        dev = None
        if obs['problem']:
            if obs['problem'] == 'stages-did-not-reach-gates':
                dev = 'stages-stuck-before-gate'
            else:
                dev = obs['problem']
        elif obs['hang']:
            dev = 'hang-after-all-stages-exited'
        elif obs['early']:
            dev = 'returned-before-all-stages-terminated'
        else:
            gated = [i for i, k in enumerate(kinds) if k in ('copy', 'fail', 'noread', 'killed')]
            if any(obs['starts'].get(i, 0) != 1 for i in gated):
                dev = 'stage-start-count'
            elif obs['status'] != exp['status']:
                dev = 'status'
            elif n >= 2 and kinds[-1] in ('copy', 'fail', 'killed') and exp['sink_in'] is not None:
                nread, s, _ = obs['moved'].get(n - 1, (None, None, None))
                if nread != len(exp['sink_in']):
                    dev = 'byte-count'
                elif s != checksum(exp['sink_in']):
                    dev = 'checksum'
        if dev is None:
            rep.outcome('ok:' + cls)
            rep.traces_validated += 1
            seen_orders.add((n, order))
        else:
            rep.outcome('deviation:' + dev)
            where = 'last' if order and order[0] == n - 1 else 'other'
            rep.violation('%s:%s:payload%s:%s' % (dev, cls, 'big' if size > 65536 else 'small', 'last-stage-first' if where == 'last' else 'other-order'),
                          {'line': line, 'kinds': kinds, 'payload': size, 'gate_release_order': order, 'last_stage_ending': ending},
                          {'status': exp['status'], 'sink_bytes': None if exp['sink_in'] is None else len(exp['sink_in'])},
                          {k: obs[k] for k in ('status', 'moved', 'starts', 'early', 'hang', 'problem', 'err')},
                          repro='(needs the gate driver) ./check C02 --replay <file>')
    rep.states = len(seen_orders)
    rep.bounds.append({'layer': 'real binary with exit gates', 'n_max': 4 if tier == 'quick' else 6, 'cases': len(cs), 'complete': True})
    c = cs[len(cs) // 3]
    rep.sample({'kinds': c[0], 'payload': c[1], 'gate_release_order': c[2], 'last_stage_ending': c[3]})
    if not rep.cap_hit and len([o for o in seen_orders if o[0] == 3]) < 6:
        rep.machinery.append('vacuity guard: not all 6 exit orders of 3-stage pipelines were seen passing')
