"""C03 — command lists run left to right with correct short-circuit and status.

All programs p1 op p2 ... pn (op in ; && ||, each pi = `vh-mark i s $?` exiting s) up to n = 4
(thorough 6) with s in {0,1}, all programs up to n = 2 (3) with s in {0,1,2,255}, decoy variants
(quoted / escaped operators as extra arguments), spellings (no blanks around the operators, trailing `;`, extra blanks)
and two-stage pipelines as pi, run by the real binary
with -c and as a script file; oracle = reference interpreter (status register, skip leaves it unchanged):
exact record sequence, every $? probe, process exit status. Second layer: members of eleven kinds (external, killed by a signal = 128+n, assignment
only, builtin succeeding / failing, cd, export, command not found, pipeline ending in a builtin): all programs of 1..2
members over all kinds and of 3 members (quick: over five kinds), with a final $? probe and without (exit status)."""
import itertools
import os

from .. import common

OPS = [';', '&&', '||']
DECOYS = ["';'", "'&&'", "\;", '"||"', "'#'", '"q\\" && z"', '"a\\"" ";"']


def ref(ops, stats):
    """ops[i] precedes pipeline i (ops[0] is None); returns (records [(i, probe)], final status)."""
    reg = 0
    recs = []
    for i, s in enumerate(stats):
        op = ops[i]
        if op == '&&' and reg != 0:
            continue
        if op == '||' and reg == 0:
            continue
        recs.append((i + 1, reg))
        reg = s
    return recs, reg


def programs(nmax, statuses):
    for n in range(1, nmax + 1):
        for ops in itertools.product(OPS, repeat=n - 1):
            for stats in itertools.product(statuses, repeat=n):
                yield (None,) + ops, stats


def render(ops, stats, variant):
    parts = []
    for i, s in enumerate(stats):
        if variant in ('plain', 'tight', 'trailing-semicolon', 'trailing-semicolon-blank', 'wide'):
            p = 'vh-mark %d %d $?' % (i + 1, s)
        elif variant.startswith('decoy'):
            d = DECOYS[int(variant[5:])]
            p = 'vh-mark %d %d $? %s' % (i + 1, s, d)
        else:  # two-stage pipeline, the last stage decides
            p = 'vh-io x%d %d | vh-mark %d %d $?' % (i + 1, 1 - min(s, 1), i + 1, s)
        if ops[i] is not None:
            parts.append(ops[i])
        parts.append(p)
    if variant == 'tight':          # no blanks around the operators
        return ''.join(parts)
    if variant == 'trailing-semicolon':
        return ' '.join(parts) + ' ;'
    if variant == 'trailing-semicolon-blank':     # blanks after the last `;` are not a member
        return ' '.join(parts) + ' ;  '
    if variant == 'wide':           # leading / repeated blanks
        return '  ' + '   '.join(parts) + '  '
    return ' '.join(parts)


KINDS = {   # name: (template, status, records a mark)
    'ext0': ('vh-mark %d 0 $?', 0, True),
    'ext3': ('vh-mark %d 3 $?', 3, True),
    'killed-by-signal': ('vh-mark %d sig15 $?', 143, True),
    'assign': ('V%d=x', 0, False),
    'builtin-ok': ('alias z%d=1', 0, False),
    'builtin-fail': ('unalias nosuch%d', 1, False),
    'cd-ok': ('cd . # %d', 0, False),
    'cd-fail': ('cd /nonexistent%d', 1, False),
    'not-found': ('vh-nosuch%d', 127, False),
    'export': ('export E%d=1', 0, False),
    'pipeline-builtin-last': ('vh-io x%d 1 | alias', 0, False),
}
KINDS['cd-ok'] = ('cd .', 0, False)
QUICK3 = ['ext0', 'ext3', 'assign', 'builtin-fail', 'not-found', 'killed-by-signal']


def kind_programs(tier):
    names = list(KINDS)
    for n in (1, 2):
        for ks in itertools.product(names, repeat=n):
            for ops in itertools.product(OPS, repeat=n - 1):
                yield (None,) + ops, ks
    three = names if tier == 'thorough' else QUICK3
    for ks in itertools.product(three, repeat=3):
        for ops in itertools.product(OPS, repeat=2):
            yield (None,) + ops, ks


def run_kind_case(case):
    """members of different kinds (external, assignment only, builtin, cd, not found, export ...): the status register after
    each member, seen by the next probing member and by a final probe / the process exit status"""
    ops, ks, final_probe, mode = case
    parts = []
    reg = 0
    exp = []
    for i, k in enumerate(ks):
        tmpl, st, records = KINDS[k]
        if ops[i] is not None:
            parts.append(ops[i])
        parts.append(tmpl % (i + 1) if '%d' in tmpl else tmpl)
        if (ops[i] == '&&' and reg != 0) or (ops[i] == '||' and reg == 0):
            continue
        if records:
            exp.append((i + 1, reg))
        reg = st
    if final_probe:
        parts += [';', 'vh-mark 9 0 $?']
        exp.append((9, reg))
        reg = 0
    line = ' '.join(parts)
    d = common.fresh_case_dir()
    try:
        if mode == 'c':
            r = common.run_cicada(['-c', line], d, timeout=20)
        else:
            path = os.path.join(d, 's.sh')
            with open(path, 'w') as f:
                f.write(line + '\n')
            r = common.run_cicada([path], d, timeout=20)
        if r.timed_out:
            return (line, 'hang', exp, reg, None, None)
        obs = []
        for x in r.records:
            if x.get('k') == 'mark':
                a = x['argv']
                try:
                    obs.append((int(a[0]), int(a[2])))
                except (ValueError, IndexError):
                    obs.append(tuple(a))
        kind = 'ok'
        if [o[0] for o in obs] != [e[0] for e in exp]:
            kind = 'sequence'
        elif obs != exp:
            kind = 'probe'
        elif r.status != reg:
            kind = 'exit-status'
        return (line, kind, exp, reg, obs, r.status)
    finally:
        common.drop_case_dir(d)


def run_case(case):
    ops, stats, variant, mode = case
    line = render(ops, stats, variant)
    exp_recs, exp_status = ref(ops, stats)
    d = common.fresh_case_dir()
    try:
        if mode == 'c':
            r = common.run_cicada(['-c', line], d, timeout=20)
        else:
            path = os.path.join(d, 's.sh')
            with open(path, 'w') as f:
                f.write(line + '\n')
            r = common.run_cicada([path], d, timeout=20)
        if r.timed_out:
            return (case, line, 'hang', exp_recs, exp_status, None, None)
        obs = []
        for x in r.records:
            if x.get('k') == 'mark':
                a = x['argv']
                try:
                    obs.append((int(a[0]), int(a[2])))
                except (ValueError, IndexError):
                    obs.append(tuple(a))
        kind = 'ok'
        if [o[0] for o in obs] != [e[0] for e in exp_recs]:
            kind = 'sequence'
        elif obs != exp_recs:
            kind = 'probe'
        elif r.status != exp_status:
            kind = 'exit-status'
        return (case, line, kind, exp_recs, exp_status, obs, r.status)
    finally:
        common.drop_case_dir(d)


def classify(ops, stats, exp_recs, obs):
    """input class of a sequence deviation: the operator pattern around the first divergence."""
    exp_ids = [e[0] for e in exp_recs]
    obs_ids = [o[0] for o in (obs or [])]
    k = 0
    while k < len(exp_ids) and k < len(obs_ids) and exp_ids[k] == obs_ids[k]:
        k += 1
    if k < len(exp_ids) and (k >= len(obs_ids) or obs_ids[k] != exp_ids[k]):
        missing = exp_ids[k]
        # what was skipped just before the pipeline that should have run
        prev_ops = [o for o in ops[1:missing] if o]
        return 'not-run-after-skip:%s' % (ops[missing - 1],) if missing >= 2 else 'first-not-run'
    return 'ran-extra:%s' % (ops[obs_ids[k] - 1] if k < len(obs_ids) and isinstance(obs_ids[k], int) and obs_ids[k] - 1 < len(ops) else '?')


def run(rep, tier):
    nmax, nmax4 = (6, 3) if tier == 'thorough' else (5, 2)
    rep.rule = ('all programs p1 op ... pn, op in {; && ||}, statuses in {0,1} up to n=%d and in {0,1,2,255} up to n=%d, plus decoy and '
                'pipeline variants; non-trivial = at least one pipeline is skipped; distinct = distinct program' % (nmax, nmax4))
    rep.assumptions = [
        'every pipeline is the helper vh-mark (records its index and the $? it was planned with, exits the scripted status)',
        'programs longer than the bound are not explored; -c and script-file entry points only (prompt entry: C16)',
    ]
    cases = []
    for ops, stats in programs(nmax, (0, 1)):
        cases.append((ops, stats, 'plain', 'c'))
        if len(stats) <= (4 if tier == 'thorough' else 3):
            cases.append((ops, stats, 'plain', 'script'))
    for ops, stats in programs(nmax4, (0, 1, 2, 255)):
        if any(s > 1 for s in stats):
            cases.append((ops, stats, 'plain', 'c'))
            cases.append((ops, stats, 'plain', 'script'))
    for ops, stats in programs(3 if tier == 'thorough' else 2, (0, 1)):
        for k in range(len(DECOYS)):
            cases.append((ops, stats, 'decoy%d' % k, 'c'))
        cases.append((ops, stats, 'pipe', 'c'))
    # spellings: operators without blanks, a trailing `;` (also followed by blanks), leading and repeated blanks
    for ops, stats in programs(4 if tier == 'thorough' else 3, (0, 1)):
        for v in ('tight', 'trailing-semicolon', 'trailing-semicolon-blank', 'wide'):
            cases.append((ops, stats, v, 'c'))
            if len(stats) <= 2:
                cases.append((ops, stats, v, 'script'))
    results = common.pmap(run_case, cases, chunk=8)
    states = set()
    for case, line, kind, exp_recs, exp_status, obs, status in results:
        ops, stats, variant, mode = case
        rep.evaluations += 1
        rep.transitions += len(stats)
        states.add((tuple(obs or ()), status))
        if len(exp_recs) < len(stats):
            rep.nontrivial += 1
        if kind != 'ok':
            # a deviation is believed only if it shows again when the case is run alone
            case, line, kind2, exp_recs, exp_status, obs2, status2 = run_case(case)
            if kind2 == 'ok':
                rep.outcome('unreproduced-deviation')
                kind = 'ok'
            else:
                kind, obs, status = kind2, obs2, status2
        if kind == 'ok':
            rep.outcome('ok:ran%d-of-%d' % (len(exp_recs), len(stats)))
            rep.traces_validated += 1
            continue
        rep.outcome('deviation:' + kind)
        if kind == 'sequence':
            sig = 'sequence:%s:%s' % (classify(ops, stats, exp_recs, obs), mode)
        elif kind == 'hang':
            sig = 'hang'
        else:
            sig = '%s:%s:%s' % (kind, variant.rstrip('0123456789'), mode)
        rep.violation(sig, {'line': line, 'mode': mode}, {'records': exp_recs, 'exit_status': exp_status},
                      {'records': obs, 'exit_status': status},
                      repro=('cicada -c %s' % common.shquote(line)) if mode == 'c' else 'script file containing: %s' % line)
    # members of different kinds
    kcases = []
    for ops, ks in kind_programs(tier):
        kcases.append((ops, ks, True, 'c'))
        if len(ks) <= 2:
            kcases.append((ops, ks, False, 'c'))
            kcases.append((ops, ks, True, 'script'))
            kcases.append((ops, ks, False, 'script'))
    kres = common.pmap(run_kind_case, kcases, chunk=8)
    for case, (line, kind, exp, reg, obs, status) in zip(kcases, kres):
        ops, ks, final_probe, mode = case
        rep.evaluations += 1
        rep.transitions += len(ks)
        states.add((tuple(obs or ()), status))
        if any(not KINDS[k][2] for k in ks):
            rep.nontrivial += 1
        if kind != 'ok':
            line, kind2, exp, reg, obs2, status2 = run_kind_case(case)
            if kind2 == 'ok':
                rep.outcome('unreproduced-deviation')
                kind = 'ok'
            else:
                kind, obs, status = kind2, obs2, status2
        if kind == 'ok':
            rep.outcome('ok:kinds')
            rep.traces_validated += 1
            continue
        rep.outcome('deviation:kinds:' + kind)
        # class = deviation kind + the kind of the last member before the first wrong observation + entry point
        bad = 0
        if obs is not None:
            while bad < len(obs) and bad < len(exp) and obs[bad] == exp[bad]:
                bad += 1
        upto = (exp[bad][0] if bad < len(exp) else len(ks) + 1)
        prev = ks[min(upto, len(ks) + 1) - 2] if upto >= 2 else ks[0]
        rep.violation('%s:member-kinds:after-%s:%s' % (kind, prev, mode), {'line': line, 'mode': mode, 'kinds': list(ks)},
                      {'records': exp, 'exit_status': reg}, {'records': obs, 'exit_status': status},
                      repro=('cicada -c %s' % common.shquote(line)) if mode == 'c' else 'script file containing: %s' % line)
    rep.bounds.append({'layer': 'real binary, members of %d kinds' % len(KINDS), 'n_max_all_kinds': 2, 'n_3_kinds': 'all' if tier == 'thorough' else QUICK3,
                       'cases': len(kcases), 'complete': True})
    rep.states = len(states)
    rep.bounds.append({'layer': 'real binary', 'n_max_binary_status': nmax, 'n_max_four_status': nmax4, 'cases': len(cases), 'complete': True})
    rep.sample({'line': cases[len(cases) // 3] and render(*cases[len(cases) // 3][:3]), 'mode': cases[len(cases) // 3][3]})
    seen_ops_skipped = set(k for k in rep.outcomes if k.startswith('ok:ran'))
    if len(seen_ops_skipped) < 3:
        rep.machinery.append('vacuity guard: expected both run and skipped pipelines among the passing cases (%r)' % sorted(rep.outcomes))
