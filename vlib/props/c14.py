"""C14 — scripts execute exactly the command sequence their block structure prescribes.

ALL abstract syntax trees over {command, if with 0..2 else-if arms and optional else, for over 0..2 words, while, break,
continue (inside loops)} with up to N statement nodes and nesting depth <= 3 are rendered in both accepted spellings
(newline form, `; then` / `; do` form) with two layouts. Every condition is the helper vh-cond, whose answers are
scripted: each dynamic evaluation of a condition is a choice point of a stateless choice-prefix DFS (answer true or
false; beyond the explored prefix the answer is false so that loops end), so every answer string the run can consume
up to the bound is explored. The real binary runs the script; its marker / condition trace must equal the trace of a
reference interpreter given the same answers. Negatives: every tree with one block keyword line deleted must be
rejected with a diagnostic and a non-zero status instead of running a shortened script."""
import itertools
import os

from .. import common


# ---------------------------------------------------------------- AST enumeration

def blocks(n, depth, in_loop):
    """all statement lists with exactly n statement nodes"""
    if n == 0:
        yield ()
        return
    for first_size in range(1, n + 1):
        for st in stmts(first_size, depth, in_loop):
            for rest in blocks(n - first_size, depth, in_loop):
                yield (st,) + rest


def nonempty_blocks(n, depth, in_loop):
    for k in range(1, n + 1):
        yield from ((k, b) for b in blocks(k, depth, in_loop))


def stmts(n, depth, in_loop):
    """all single statements with exactly n nodes"""
    if n == 1:
        yield ('cmd',)
        if in_loop:
            yield ('break',)
            yield ('continue',)
    if depth <= 0 or n < 2:
        return
    rem = n - 1
    # if: 1..3 conditional arms + optional else, each body non-empty
    for narms in (1, 2, 3):
        for has_else in (False, True):
            parts = narms + (1 if has_else else 0)
            if parts > rem:
                continue
            for sizes in compositions(rem, parts):
                for bodies in itertools.product(*[list(blocks(s, depth - 1, in_loop)) for s in sizes]):
                    arms = bodies[:narms]
                    els = bodies[narms] if has_else else None
                    yield ('if', arms, els)
    for nwords in (0, 1, 2):
        for body in blocks(rem, depth - 1, True):
            yield ('for', nwords, body)
    for body in blocks(rem, depth - 1, True):
        yield ('while', body)


def compositions(n, k):
    if k == 1:
        if n >= 1:
            yield (n,)
        return
    for first in range(1, n - k + 2):
        for rest in compositions(n - first, k - 1):
            yield (first,) + rest


def label(tree):
    """give every cmd / condition a unique id (pre-order)"""
    counter = [0]

    def lab_block(b, loopdepth):
        return tuple(lab(s, loopdepth) for s in b)

    def lab(s, loopdepth):
        counter[0] += 1
        i = counter[0]
        if s[0] == 'cmd':
            return ('cmd', i, loopdepth)
        if s[0] in ('break', 'continue'):
            return (s[0],)
        if s[0] == 'if':
            arms = []
            for a in s[1]:
                counter[0] += 1
                arms.append((counter[0], lab_block(a, loopdepth)))
            els = lab_block(s[2], loopdepth) if s[2] is not None else None
            return ('if', tuple(arms), els)
        if s[0] == 'for':
            return ('for', s[1], loopdepth + 1, lab_block(s[2], loopdepth + 1))
        counter[0] += 1
        c = counter[0]
        return ('while', c, lab_block(s[1], loopdepth + 1))
    return lab_block(tree, 0)


WORDS = ['wa', 'wb']
# block keywords used as ordinary ARGUMENTS of commands (layout 2): they must not be taken as block structure
KEYWORD_ARGS = ['if', 'fi', 'done', 'for', 'while', 'else', 'do', 'then', 'break', 'continue', 'in', 'function']


def cond_text(cid, form):
    """how a condition is written: a single command, or a list whose status decides (form 1: `c || c`, form 2: `c && c`)"""
    c = 'vh-cond %d' % cid
    return c if form == 0 else ('%s || %s' % (c, c) if form == 1 else '%s && %s' % (c, c))


def render(tree, semi, layout, form=0):
    lines = []
    ind_unit = '    ' if layout in (0, 2) else '\t'

    def emit(s, depth):
        lines.append((ind_unit * depth if layout in (0, 2) else (ind_unit * depth if depth % 2 else '')) + s)
        if layout == 1 and len(lines) % 3 == 0:
            lines.append('')

    def block(b, depth):
        for s in b:
            stmt(s, depth)

    def stmt(s, depth):
        if s[0] == 'cmd':
            vars_ = ' '.join('"$v%d"' % k for k in range(1, s[2] + 1))
            kw = ''
            if layout == 2:
                kw = ' ' + ' '.join(KEYWORD_ARGS[(s[1] + k) % len(KEYWORD_ARGS)] for k in range(1 + s[1] % 3))
            emit(('vh-mark %d 0 %s' % (s[1], vars_)).rstrip() + kw, depth)
        elif s[0] in ('break', 'continue'):
            emit(s[0], depth)
        elif s[0] == 'if':
            for k, (cid, body) in enumerate(s[1]):
                kw = 'if' if k == 0 else 'else if'
                emit('%s %s%s' % (kw, cond_text(cid, form), '; then' if semi else ''), depth)
                block(body, depth + 1)
            if s[2] is not None:
                emit('else', depth)
                block(s[2], depth + 1)
            emit('fi', depth)
        elif s[0] == 'for':
            words = ' '.join(WORDS[:s[1]]) if s[1] else '$NOWORDS'
            emit('for v%d in %s%s' % (s[2], words, '; do' if semi else ''), depth)
            block(s[3], depth + 1)
            emit('done', depth)
        else:
            emit('while %s%s' % (cond_text(s[1], form), '; do' if semi else ''), depth)
            block(s[2], depth + 1)
            emit('done', depth)
    block(tree, 0)
    return '\n'.join(lines) + '\n'


class Stop(Exception):
    pass


def interpret(tree, answers, limit=60, form=0):
    """reference interpreter: returns (trace, number of condition evaluations)"""
    trace = []
    pos = [0]
    env = {}

    def cond1(cid):
        a = answers[pos[0]] if pos[0] < len(answers) else '1'
        trace.append(('cond', cid, pos[0]))
        pos[0] += 1
        if len(trace) > limit:
            raise Stop()
        return a == '0'

    def cond(cid):
        first = cond1(cid)
        if form == 1:
            return first or cond1(cid)       # c || c: the second is only run if the first fails
        if form == 2:
            return first and cond1(cid)      # c && c
        return first

    def block(b):
        for s in b:
            sig = stmt(s)
            if sig:
                return sig
        return None

    def stmt(s):
        if s[0] == 'cmd':
            trace.append(('mark', s[1], tuple(env.get(k, '') for k in range(1, s[2] + 1))))
            if len(trace) > limit:
                raise Stop()
            return None
        if s[0] in ('break', 'continue'):
            return s[0]
        if s[0] == 'if':
            for cid, body in s[1]:
                if cond(cid):
                    return block(body)
            if s[2] is not None:
                return block(s[2])
            return None
        if s[0] == 'for':
            for w in WORDS[:s[1]]:
                env[s[2]] = w
                sig = block(s[3])
                if sig == 'break':
                    break
            return None
        while True:
            if not cond(s[1]):
                break
            sig = block(s[2])
            if sig == 'break':
                break
        return None
    try:
        block(tree)
    except Stop:
        return None, pos[0]
    return trace, pos[0]


def run_script(job):
    text, answers = job
    d = common.fresh_case_dir()
    try:
        with open(os.path.join(d, 's.sh'), 'w') as f:
            f.write(text)
        with open(os.path.join(d, 'cond'), 'w') as f:
            f.write(answers)
        r = common.run_cicada([os.path.join(d, 's.sh')], d, stdin=b'', timeout=20)
        trace = []
        for x in r.records:
            if x.get('k') == 'mark':
                trace.append(('mark', int(x['argv'][0]), tuple(a for a in x['argv'][2:] if a not in KEYWORD_ARGS)))
            elif x.get('k') == 'cond':
                trace.append(('cond', int(x['argv'][0]), x['pos']))
        return {'trace': trace, 'status': r.status, 'timed_out': r.timed_out, 'err': r.err.decode('utf-8', 'replace')[-300:]}
    finally:
        common.drop_case_dir(d)


def kinds(tree):
    ks = set()

    def walk(b):
        for s in b:
            ks.add(s[0])
            if s[0] == 'if':
                if len(s[1]) > 1:
                    ks.add('elseif')
                if s[2] is not None:
                    ks.add('else')
                for _, body in s[1]:
                    walk(body)
                if s[2]:
                    walk(s[2])
            elif s[0] == 'for':
                walk(s[3])
            elif s[0] == 'while':
                walk(s[2])
    walk(tree)
    ks.discard('cmd')
    return '+'.join(sorted(ks)) or 'cmds'


def run(rep, tier):
    nmax, amax = (5, 6) if tier == 'thorough' else (4, 4)
    rep.rule = ('all ASTs with up to %d statement nodes (depth <= 3) x 2 spellings (layouts alternate) x every answer string of up to %d scripted condition answers that the run consumes; '
                'non-trivial = tree with at least one block; distinct = distinct (script text, answers)' % (nmax, amax))
    rep.assumptions = [
        'conditions are the helper vh-cond (scripted answers, default false after the explored prefix so that every loop ends); commands are vh-mark with the loop variables as arguments',
        'for lists over 0..2 literal words (0 words written as an unset variable); trees larger than the bound are not explored',
        'negatives: one block keyword line (head, fi, done) deleted from each tree with <= 3 nodes',
        'a third rendering gives every command one to three block keywords (if fi done for while else do then break continue in function) as ordinary arguments',
    ]
    trees = []
    small = []
    for n in range(1, nmax + 1):
        for b in blocks(n, 3, False):
            trees.append(label(b))
            if n <= (4 if tier == 'thorough' else 3):
                small.append(trees[-1])
    jobs = []
    meta = []
    # choice-prefix DFS over condition answers, driven by the reference interpreter's consumption
    # (the reference decides which answer strings are consumable; the real run must consume the same)
    for ti, t in enumerate(trees):
        stack = ['']
        seen = set()
        while stack:
            ans = stack.pop()
            if ans in seen:
                continue
            seen.add(ans)
            tr, used = interpret(t, ans)
            if tr is None:
                continue
            semi = (ti + len(ans)) % 2 == 1
            layout = (ti // 2 + len(ans)) % 2
            variants = [(semi, layout)]
            if len(ans) == 0 or tier == 'thorough':
                variants.append((not semi, 1 - layout))
            if len(ans) <= 1 or tier == 'thorough':
                variants.append((semi, 2))          # commands carry block keywords as arguments
            for sm, lo in variants:
                jobs.append((render(t, sm, lo), ans))
                meta.append((t, ans, tr, sm))
            for i in range(len(ans), min(used, amax)):
                alt = ans + '1' * (i - len(ans)) + '0'
                stack.append(alt)
    # conditions written as lists (`c || c`, `c && c`): the status of the LIST decides, and the second command runs only
    # when the first does not decide
    nforms = 0
    for form in (1, 2):
        for ti, t in enumerate(small):
            if kinds(t) == 'cmds' or not any(k in kinds(t) for k in ('if', 'while')):
                continue
            stack = ['']
            seen = set()
            while stack:
                ans = stack.pop()
                if ans in seen:
                    continue
                seen.add(ans)
                tr, used = interpret(t, ans, form=form)
                if tr is None:
                    continue
                sm = (ti + len(ans)) % 2 == 1
                jobs.append((render(t, sm, 0, form), ans))
                meta.append((t, ans, tr, sm))
                nforms += 1
                for i in range(len(ans), min(used, amax)):
                    stack.append(ans + '1' * (i - len(ans)) + '0')
    results = common.pmap(run_script, jobs, chunk=6)
    states = set()
    for (text, ans), (t, a, exp, semi), o in zip(jobs, meta, results):
        rep.evaluations += 1
        rep.transitions += max(1, len(exp))
        k = kinds(t) + ('+or-condition' if '|| vh-cond' in text else '+and-condition' if '&& vh-cond' in text else '')
        if k != 'cmds':
            rep.nontrivial += 1
        states.add(repr(o['trace']))
        dev = None
        if o['timed_out']:
            dev = 'hang'
        elif o['trace'] != exp:
            em = [x for x in exp if x[0] == 'mark']
            om = [x for x in o['trace'] if x[0] == 'mark']
            if [x[1] for x in om] != [x[1] for x in em]:
                dev = 'command-sequence'
            elif om != em:
                dev = 'loop-variable-binding'
            else:
                dev = 'condition-evaluations'
        if dev is not None and dev != 'hang':
            o2 = run_script((text, ans))
            if o2['trace'] == exp and not o2['timed_out']:
                rep.outcome('unreproduced-deviation')
                dev = None
        if dev is None:
            rep.outcome('ok:' + ('semi' if semi else 'newline'))
            rep.traces_validated += 1
        else:
            rep.outcome('deviation:' + dev)
            rep.violation('%s:%s:%s' % (dev, k, 'semi' if semi else 'newline'), {'script': text, 'condition_answers': ans or '(all false)'},
                          {'trace': exp}, {'trace': o['trace'], 'status': o['status'], 'stderr': o['err']},
                          repro='write the script to s.sh, the answers to $VH_DIR/cond, run cicada s.sh')
    rep.bounds.append({'layer': 'conditions written as || and && lists, trees with <= %d nodes' % (4 if tier == 'thorough' else 3), 'runs': nforms, 'complete': True})
    rep.bounds.append({'layer': 'positive trees', 'trees': len(trees), 'runs': len(jobs), 'max_nodes': nmax, 'max_answers': amax, 'complete': True})
    # negatives
    neg_jobs, neg_meta = [], []
    for t in small:
        text = render(t, False, 0)
        lines = text.split('\n')
        exp, _ = interpret(t, '')
        for i, l in enumerate(lines):
            w = l.strip()
            if w in ('fi', 'done') or w.startswith(('if ', 'for ', 'while ')):
                cut = '\n'.join(lines[:i] + lines[i + 1:])
                neg_jobs.append((cut, ''))
                neg_meta.append((t, w.split()[0], exp))
    for (text, _), (t, kw, exp_full), o in zip(neg_jobs, neg_meta, common.pmap(run_script, neg_jobs, chunk=6)):
        rep.evaluations += 1
        rep.transitions += 1
        diagnosed = o['status'] not in (0, None) and o['err'].strip() != ''
        if o['timed_out']:
            rep.violation('negative-hang:%s' % kw, {'script': text}, 'syntax error diagnostic, non-zero status', 'hang')
        elif not diagnosed:
            rep.outcome('deviation:unbalanced-not-diagnosed')
            rep.violation('unbalanced-not-diagnosed:missing-%s' % kw, {'script': text}, 'syntax error diagnostic and non-zero status',
                          {'status': o['status'], 'stderr': o['err'], 'trace': o['trace']}, repro='cicada <script with the block keyword line removed>')
        else:
            rep.outcome('ok:negative-diagnosed')
            rep.traces_validated += 1
    rep.bounds.append({'layer': 'negatives (one block keyword line deleted)', 'runs': len(neg_jobs), 'complete': True})
    rep.states = len(states)
    rep.sample({'script': jobs[len(jobs) // 2][0], 'condition_answers': jobs[len(jobs) // 2][1]})
    if len(trees) < 100:
        rep.machinery.append('vacuity guard: fewer than 100 trees')


def replay(rec):
    """run the recorded script with the recorded condition answers and compare with the recorded reference trace"""
    text = rec['case']['script']
    ans = rec['case'].get('condition_answers', '')
    if ans.startswith('('):
        ans = ''
    o = run_script((text, ans))
    exp = [tuple(x[:2]) + (tuple(x[2]) if isinstance(x[2], list) else x[2],) for x in (rec.get('expected') or {}).get('trace', [])]
    print(text)
    print('expected trace:', exp)
    print('observed trace:', o['trace'], 'status', o['status'], o['err'])
    if exp and o['trace'] != exp:
        print('VIOLATION property=C14 replay=(this file)')
        return 1
    return 0
