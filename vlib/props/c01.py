"""C01 — quoted and escaped arguments reach the program verbatim.

in-process (Rust engine harness/src/props/c01.rs): every argument text up to length 3 (thorough 4) over
the 34-symbol metacharacter alphabet x the three quoting styles of the statement x six position templates,
all ordered pairs of texts of length <= 1 in all style pairs, all lists of 0..6 operator-like arguments,
planned by the real CommandLine::from_line in an adversarial environment; oracle = exact argv, no
background, no redirection, no assignment, right pipeline/list structure.
process level (here): the length <= 1 cases and the operator-like pairs are executed by the real binary;
the helper's record must show exactly the expected argv, the command must have run in the foreground and
no file may appear. Agreement of the two levels is reported as traces_validated_against_impl."""
import itertools
import os

from .. import common

SIGMA = ["|", "&", ";", "<", ">", "(", ")", "$", "`", "\\", '"', "'", "*", "?", "[", "]", "{", "}", ",", "~", "#", "!",
         "=", "%", "^", " ", "\t", "a", "é", "b", ".", "-", "1", "/"]
STYLES = ('sq', 'dq', 'esc')
TEMPLATES = ["only", "middle", "last", "before-pipe", "before-semicolon", "before-and"]


def write_arg(text, style):
    if style == 'sq':
        return None if "'" in text else "'%s'" % text
    if style == 'dq':
        return None if any(c in '$`\\' for c in text) else '"%s"' % text.replace('"', '\\"')
    if text == '':
        return "''"
    return ''.join(c if c.isalnum() else '\\' + c for c in text)


def render(template, args, texts):
    j = ' '.join(args)
    if template == 'only':
        return 'vh-argv ' + j, list(texts)
    if template == 'middle':
        return 'vh-argv a %s a' % j, ['a'] + list(texts) + ['a']
    if template == 'last':
        return 'vh-argv a ' + j, ['a'] + list(texts)
    if template == 'before-pipe':
        return 'vh-argv %s | vh-argv2' % j, list(texts)
    if template == 'before-semicolon':
        return 'vh-argv %s ; vh-argv2 b' % j, list(texts)
    return 'vh-argv %s && vh-argv2 b' % j, list(texts)


def setup(d):
    for f in ("a", "b", "ab", ".h", "a b", "1"):
        with open(os.path.join(d, f), 'w') as fh:
            fh.write('x')
    os.makedirs(os.path.join(d, 'd'), exist_ok=True)


def cases_exec(tier):
    out = []
    texts = [''] + SIGMA
    for t in texts:
        for st in STYLES:
            a = write_arg(t, st)
            if a is None:
                continue
            for tp in TEMPLATES:
                line, argv = render(tp, [a], [t])
                out.append({'line': line, 'expect': [argv], 'texts': [t], 'styles': [st], 'template': tp})
    hot = ['', '|', '&', ';', '<', '>', '$', '`', '*', '~', '#', ' ', 'a'] if tier == 'quick' else texts
    for ta, tb in itertools.product(hot, repeat=2):
        for sa, sb in itertools.product(STYLES, repeat=2):
            a, b = write_arg(ta, sa), write_arg(tb, sb)
            if a is None or b is None:
                continue
            line, argv = render('only', [a, b], [ta, tb])
            out.append({'line': line, 'expect': [argv], 'texts': [ta, tb], 'styles': [sa, sb], 'template': 'only'})
    if tier == 'thorough':
        for t in itertools.product(SIGMA, repeat=2):
            t = ''.join(t)
            for st in STYLES:
                a = write_arg(t, st)
                if a is None:
                    continue
                line, argv = render('last', [a], [t])
                out.append({'line': line, 'expect': [argv], 'texts': [t], 'styles': [st], 'template': 'last'})
    return out


def special(texts):
    cs = sorted(set(c for t in texts for c in t if not c.isalnum()))
    return ''.join('␠' if c == ' ' else '␉' if c == '\t' else c for c in cs)


def run(rep, tier):
    rep.rule = ('all argument texts over the 34-symbol alphabet %r up to the stated length, in every quoting style the statement covers, '
                'in six position templates, plus all pairs / operator-like lists; non-trivial = contains a non-alphanumeric character; '
                'distinct = distinct command line' % (SIGMA,))
    rep.assumptions = [
        'argument texts longer than the stated bound and words mixing quoting styles inside one word are outside the bound',
        'plan level = CommandLine::from_line (what run_pipeline executes) in an adversarial environment: files a b ab .h "a b" 1 d/, variables a b é 1 ab set, aliases a b, HOME marker',
        'execution level = real binary with -c; several independent commands are joined with ; into one process and re-run singly on any mismatch',
        'environment variables with the helper names and PATH are fixed by the harness',
    ]
    res = common.run_engine('C01', tier)
    rep.merge_engine(res)
    plan_bad = set()
    for v in res.get('violations', []):
        for w in v['witnesses']:
            if isinstance(w.get('case'), dict) and 'line' in w['case']:
                plan_bad.add(w['case']['line'])
    cases = cases_exec(tier)
    results = common.exec_lines(cases, setup=setup, batch=25)
    agree = 0
    for c, r in zip(cases, results):
        rep.evaluations += 1
        rep.transitions += 1
        if r['ok']:
            rep.outcome('exec-verbatim')
            if c['line'] not in plan_bad:
                agree += 1
        else:
            if r.get('timed_out'):
                kind = 'exec-hang'
            elif r['files']:
                kind = 'exec-file-created'
            elif len(r['observed']) != 1:
                kind = 'exec-records-%d' % len(r['observed'])
            else:
                kind = 'exec-argv'
            rep.outcome(kind)
            rep.violation('%s:%s:[%s]' % (kind, '+'.join(c['styles']), special(c['texts'])),
                          {'line': c['line'], 'texts': c['texts'], 'styles': c['styles'], 'template': c['template']},
                          {'argv': c['expect'], 'new_files': []},
                          {'argv': r['observed'], 'new_files': r['files'], 'status': r['status'], 'stderr': r['info']},
                          repro='cicada -c %s' % common.shquote(c['line']))
    rep.traces_validated = agree
    rep.bounds.append({'layer': 'real binary -c: texts len<=1 x styles x templates + %s pairs%s' % (
        'operator-like' if tier == 'quick' else 'all', '' if tier == 'quick' else ' + texts len 2 (template last)'),
        'cases': len(cases), 'complete': True})
    rep.sample({'line': cases[len(cases) // 2]['line'], 'expected_argv': cases[len(cases) // 2]['expect']})
    if sum(n for k, n in rep.outcomes.items() if k.startswith('verbatim:')) < 1000 or rep.outcomes.get('exec-verbatim', 0) < 100:
        rep.machinery.append('vacuity guard: too few verbatim outcomes')
