"""C06 — the job table tracks exactly the live jobs under every order of child events.

Rust engine harness/src/props/c06.rs: the real Shell::insert_job, jobc::wait_fg_job, jobc::try_wait_bg_jobs,
signals::handle_sigchld and jobc::mark_job_as_running run unmodified; `waitpid` is answered by a model of the
kernel's child-notification semantics. Explicit-state BFS (canonical-state dedup, states re-derived by
re-executing the step from the parent's snapshot) over prompt-level states; every hooked waitpid call inside a
blocking wait / drain loop is a choice point of a stateless choice-prefix DFS. The kernel model is bound to the
real kernel by replaying prompt-level traces with real forked children and real signals."""
from .. import common


def run(rep, tier):
    rep.rule = ('all interleavings of job launches (fg/bg, 1..3 processes, non-ascending pids), child events (stop/continue/exit/kill) '
                'delivered to a foreground wait or to the prompt poll, fg/bg/jobs/empty-line actions, up to the completed event bound; '
                'non-trivial = distinct canonical prompt-level state (job table + parked-event maps + kernel model + what the shell was told)')
    rep.assumptions = [
        'bound: <= 3 concurrent jobs, <= 3 processes per job, <= 4 launches, <= 4 (thorough 6) processes in total, event budget as reported in bounds_completed',
        'the kernel wait model (one pending notification per child, later state changes overwrite unreported ones, exit supersedes, ECHILD iff no unreaped child) is validated against the real kernel for prompt-level traces only (traces_validated_against_impl); traces with events during a blocking wait are not replayed against the real kernel',
        'fg/bg are mirrored from builtins/fg.rs and builtins/bg.rs (they need a terminal); the real builtins are exercised on a pty by C07',
        'inside one macro step executions with equal kernel state and equal delivered-notification sequence are merged (the real code only observes deliveries)',
        'job table is judged after the `jobs` poll (the observable), wait_fg_job at every call and at return',
    ]
    res = common.run_engine('C06', tier)
    rep.merge_engine(res)
    rep.traces_validated = res.get('traces_validated', 0)
    rep.extra['completed_event_bound'] = res.get('completed_event_bound')
    if res.get('completed_event_bound', -1) < 2:
        rep.machinery.append('vacuity guard: not even the event bound 2 was completed')
    if rep.traces_validated < 20:
        rep.machinery.append('vacuity guard: kernel-model conformance replay validated too few traces')
