"""Pseudo-terminal driver for the real interactive cicada binary.

Every action is followed by waiting for an observable condition (bytes on the terminal, a helper record, a process
state in /proc, the terminal's foreground process group) instead of sleeping; a condition that is not reached within
the limit is reported by the caller."""
import errno
import fcntl
import os
import pty
import select
import signal
import struct
import termios
import time

from . import common

PROMPT = '@P@ '


class Session:
    def __init__(self, case_dir, env=None, cwd=None, cols=200, rows=50):
        self.case_dir = case_dir
        e = common.base_env(case_dir, env)
        e.setdefault('PROMPT', PROMPT)
        e['TERM'] = 'xterm'
        e.setdefault('HISTORY_FILE', os.path.join(case_dir, 'history.sqlite'))
        os.makedirs(e['HOME'], exist_ok=True)
        self.env = e
        self.log = e['VH_LOG']
        self.buf = b''
        pid, fd = pty.fork()
        if pid == 0:
            try:
                # a disposition of "ignore" would be inherited through exec by the shell and by every program it starts
                for sig in (signal.SIGINT, signal.SIGQUIT, signal.SIGTSTP, signal.SIGTTIN, signal.SIGTTOU, signal.SIGPIPE, signal.SIGCHLD, signal.SIGCONT):
                    signal.signal(sig, signal.SIG_DFL)
                signal.pthread_sigmask(signal.SIG_SETMASK, set())
                os.chdir(cwd or case_dir)
                os.execve(common.CICADA, [common.CICADA], e)
            finally:
                os._exit(127)
        self.pid, self.fd = pid, fd
        fcntl.ioctl(fd, termios.TIOCSWINSZ, struct.pack('HHHH', rows, cols, 0, 0))
        self.exited = None

    # ---- low level
    def pump(self, timeout=0.0):
        """read whatever is available"""
        got = False
        while True:
            r, _, _ = select.select([self.fd], [], [], timeout)
            if not r:
                return got
            try:
                data = os.read(self.fd, 65536)
            except OSError as ex:
                if ex.errno == errno.EIO:
                    return got
                raise
            if not data:
                return got
            self.buf += data
            got = True
            timeout = 0.0

    def send(self, data):
        if isinstance(data, str):
            data = data.encode()
        os.write(self.fd, data)

    def wait(self, pred, timeout=5.0, step=0.005):
        t0 = time.time()
        while True:
            self.pump(0.0)
            v = pred()
            if v:
                return v
            if time.time() - t0 > timeout:
                return None
            self.pump(step)

    # ---- observations
    def prompts(self):
        return self.buf.count(PROMPT.encode())

    def wait_prompt(self, n=None, timeout=5.0):
        """wait until at least n prompt markers have been printed (default: one more than now)"""
        target = (self.prompts() + 1) if n is None else n
        return self.wait(lambda: self.prompts() >= target, timeout)

    def records(self):
        return common.read_records(self.log)

    def fg_pgrp(self):
        try:
            return os.tcgetpgrp(self.fd)
        except OSError:
            return None

    def alive(self):
        if self.exited is not None:
            return False
        try:
            p, st = os.waitpid(self.pid, os.WNOHANG)
        except ChildProcessError:
            self.exited = -1
            return False
        if p == 0:
            return True
        self.exited = st
        return False

    def line(self, text, timeout=8.0):
        """type a line + Enter and wait for the next prompt; returns True if the prompt came back"""
        n = self.prompts()
        self.send(text + '\r')
        return bool(self.wait(lambda: self.prompts() > n, timeout))

    def start(self, timeout=10.0):
        return bool(self.wait(lambda: self.prompts() >= 1, timeout))

    def kill(self):
        try:
            os.kill(self.pid, signal.SIGKILL)
            os.waitpid(self.pid, 0)
        except OSError:
            pass
        self.exited = -9
        try:
            os.close(self.fd)
        except OSError:
            pass

    def close(self):
        try:
            if self.alive():
                self.send('\x03')
                self.send('exit\r')
                t0 = time.time()
                while self.alive() and time.time() - t0 < 2.0:
                    self.pump(0.01)
            if self.alive():
                os.kill(self.pid, signal.SIGKILL)
                os.waitpid(self.pid, 0)
        except OSError:
            pass
        try:
            os.close(self.fd)
        except OSError:
            pass


def proc_state(pid):
    try:
        with open('/proc/%d/stat' % pid) as f:
            s = f.read()
        return s[s.rfind(')') + 2]
    except OSError:
        return 'X'


def proc_pgid(pid):
    try:
        return os.getpgid(pid)
    except OSError:
        return None
