"""Shared machinery of the /verif checks: build, scratch space, running the real
cicada binary with the helper programs, parallel exhaustive maps, violation
bookkeeping (known findings, replay files) and evidence files."""
import atexit
import hashlib
import json
import multiprocessing
import os
import shutil
import signal
import subprocess
import sys
import time

ROOT = '/verif'
REPO = '/repo'
TARGET = os.path.join(ROOT, 'target')
OUT = ROOT        # evidence/ and replays/ go here
# Experimentation only (never used by a registered command): VC_ALT=<checkout>:<output dir> runs a check against another
# checkout of cicada (e.g. a scratch worktree with a seeded change) with its own build and output directories, so that it
# can run next to checks of /repo.
if os.environ.get('VC_ALT'):
    REPO, OUT = os.environ['VC_ALT'].split(':', 1)
    TARGET = os.path.join(OUT, 'target')
HARNESS_DIR = os.path.join(ROOT, 'harness')
VCHECK = os.path.join(TARGET, 'harness', 'debug', 'vcheck')
VH = os.path.join(TARGET, 'harness', 'debug', 'vh')
CICADA = os.path.join(TARGET, 'repo', 'debug', 'cicada')
HELPERS = os.path.join(TARGET, 'helpers')
HELPER_NAMES = ['vh-argv', 'vh-argv2', 'vh-mark', 'vh-io', 'vh-emit', 'vh-cond', 'vh-wait', 'vh-stage']
WORKERS = max(2, min(14, (os.cpu_count() or 4) - 2))
# process creation is the scarce resource in this sandbox (fork/exec throughput collapses with many
# concurrent forkers): process-level layers use few workers
PROC_WORKERS = 5

EXIT_OK, EXIT_VIOLATION, EXIT_MACHINERY = 0, 1, 2


def machinery_error(msg):
    """A problem of the checking machinery itself: never presented as a verdict."""
    sys.stdout.flush()
    print('MACHINERY-ERROR: ' + msg, file=sys.stderr)
    sys.exit(EXIT_MACHINERY)


def cargo_env():
    env = dict(os.environ)
    env['CARGO_NET_OFFLINE'] = 'true'
    env.pop('RUSTFLAGS', None)
    return env


def build(verbose=False):
    """(Re)build the harness, the helper programs and the real binary from /repo's
    current working tree with the hooks enabled. Incremental."""
    t0 = time.time()
    alt = ['--target-dir', os.path.join(TARGET, 'harness'), '--config', 'paths=["%s"]' % REPO] if REPO != '/repo' else []
    p1 = subprocess.Popen(['cargo', 'build', '--offline', '-q'] + alt, cwd=HARNESS_DIR, env=cargo_env(),
                          stdout=subprocess.PIPE, stderr=subprocess.STDOUT)
    p2 = subprocess.Popen(['cargo', 'build', '--offline', '-q', '--manifest-path', os.path.join(REPO, 'Cargo.toml'),
                           '--features', 'cicada_verif', '--bin', 'cicada',
                           '--target-dir', os.path.join(TARGET, 'repo'),
                           '--config', 'profile.dev.package."*".opt-level=3',
                           '--config', 'profile.dev.debug=false'],
                          cwd='/', env=cargo_env(), stdout=subprocess.PIPE, stderr=subprocess.STDOUT)
    o1 = p1.communicate()[0].decode('utf-8', 'replace')
    o2 = p2.communicate()[0].decode('utf-8', 'replace')
    if p1.returncode != 0:
        machinery_error('harness build failed (does /repo still compile with --features cicada_verif?)\n' + _errors_only(o1))
    if p2.returncode != 0:
        machinery_error('cicada binary build failed\n' + _errors_only(o2))
    os.makedirs(HELPERS, exist_ok=True)
    for n in HELPER_NAMES:
        dst = os.path.join(HELPERS, n)
        try:
            if os.path.exists(dst) and os.stat(dst).st_ino == os.stat(VH).st_ino:
                continue
            if os.path.lexists(dst):
                os.unlink(dst)
            os.link(VH, dst)
        except OSError:
            shutil.copy2(VH, dst)
    if verbose:
        print('build: %.1fs' % (time.time() - t0))
    return time.time() - t0


def _errors_only(out):
    lines = out.splitlines()
    keep = []
    on = False
    for l in lines:
        if l.startswith('error'):
            on = True
        elif l.startswith('warning'):
            on = False
        if on:
            keep.append(l)
    return '\n'.join(keep[-60:]) if keep else '\n'.join(lines[-40:])


_SCRATCH = None


def kill_strays(root):
    """kill helper / shell processes left behind by a run (a process whose arguments or environment name its scratch directory)"""
    key = (root.rstrip('/') + '/').encode()
    me = os.getpid()
    for d in os.listdir('/proc'):
        if not d.isdigit() or int(d) == me:
            continue
        try:
            with open('/proc/%s/cmdline' % d, 'rb') as f:
                blob = f.read()
            if key not in blob:
                with open('/proc/%s/environ' % d, 'rb') as f:
                    blob = f.read()
            if key in blob:
                os.kill(int(d), signal.SIGKILL)
        except OSError:
            pass


def scratch_root():
    global _SCRATCH
    if _SCRATCH is None:
        base = '/dev/shm' if os.path.isdir('/dev/shm') else '/tmp'
        _SCRATCH = os.path.join(base, 'vcheck-%d' % os.getpid())
        shutil.rmtree(_SCRATCH, ignore_errors=True)
        os.makedirs(_SCRATCH)
        owner = os.getpid()

        def _clean():
            if os.getpid() == owner:
                kill_strays(_SCRATCH)
                shutil.rmtree(_SCRATCH, ignore_errors=True)
        atexit.register(_clean)
        # scratch directories of runs that were killed before they could clean up
        for d in os.listdir(base):
            if d.startswith('vcheck-') and d[7:].isdigit() and not os.path.exists('/proc/' + d[7:]):
                kill_strays(os.path.join(base, d))
                shutil.rmtree(os.path.join(base, d), ignore_errors=True)
    return _SCRATCH


def unhex(s):
    return bytes.fromhex(s)


def uh(s):
    return bytes.fromhex(s).decode('utf-8', 'surrogateescape')


def read_records(path):
    """Helper records appended to $VH_LOG, decoded."""
    recs = []
    try:
        with open(path, 'rb') as f:
            data = f.read()
    except FileNotFoundError:
        return recs
    for line in data.splitlines():
        if not line.strip():
            continue
        try:
            r = json.loads(line)
        except ValueError:
            recs.append({'k': 'garbled', 'raw': line.decode('latin1')})
            continue
        if 'argv' in r:
            r['argv'] = [uh(a) for a in r['argv']]
        if 'cwd' in r:
            r['cwd'] = uh(r['cwd'])
        if 'stdin' in r:
            r['stdin'] = unhex(r['stdin'])
        for key in ('fds', 'pfds'):
            if key in r:
                r[key] = [(n, uh(t)) for n, t in r[key]]
        if 'env' in r:
            env = {}
            dups = []
            for k, v in r['env']:
                k, v = uh(k), uh(v)
                if k in env:
                    dups.append(k)
                else:
                    env[k] = v  # getenv() semantics: the first entry wins
            r['env'] = env
            r['env_dups'] = dups
        recs.append(r)
    return recs


class Run:
    __slots__ = ('status', 'out', 'err', 'records', 'timed_out', 'wall')

    def __init__(self, status, out, err, records, timed_out, wall):
        self.status, self.out, self.err, self.records, self.timed_out, self.wall = status, out, err, records, timed_out, wall

    def argvs(self, kind='argv'):
        return [r['argv'] for r in self.records if r.get('k') == kind]


def base_env(case_dir, extra=None):
    env = {
        'PATH': HELPERS + ':/usr/bin:/bin',
        'HOME': os.path.join(case_dir, 'home'),
        'VH_LOG': os.path.join(case_dir, 'vh.log'),
        'VH_DIR': case_dir,
        'LANG': 'C.UTF-8',
        'USER': 'vcheck',
        'TERM': 'dumb',
    }
    if extra:
        env.update(extra)
    return env


RESOURCE_ERRORS = (b'Fork failed', b'Text file busy', b'Resource temporarily unavailable', b'Cannot allocate memory')


def run_cicada(argv, case_dir, cwd=None, env=None, stdin=None, timeout=10.0, exe=None):
    """Run the real binary once (argv excludes argv[0]). A run that failed for lack of machine resources (fork failed,
    helper binary being re-linked by a concurrent build) says nothing about the shell: it is repeated, up to twice,
    with a fresh helper log."""
    for attempt in range(3):
        r = _run_cicada_once(argv, case_dir, cwd, env, stdin, timeout, exe)
        if r.timed_out or not any(m in r.err for m in RESOURCE_ERRORS):
            return r
        time.sleep(0.2 * (attempt + 1))
        try:
            os.unlink(base_env(case_dir, env)['VH_LOG'])
        except OSError:
            pass
    return r


def _run_cicada_once(argv, case_dir, cwd=None, env=None, stdin=None, timeout=10.0, exe=None):
    exe = exe or CICADA
    e = base_env(case_dir, env)
    # hang budget: after 12 real timeouts in this check run, further runs are not started (they are reported as
    # timed out at once), so that a change that makes everything hang cannot stretch a check to hours
    tfile = os.path.join(scratch_root(), 'timeouts')
    try:
        if os.path.getsize(tfile) >= 12:
            return Run(None, b'', b'(not run: hang budget of this check run exhausted)', [], True, 0.0)
    except OSError:
        pass
    if e['HOME'].startswith(case_dir):
        os.makedirs(e['HOME'], exist_ok=True)
    t0 = time.time()
    p = subprocess.Popen([exe] + list(argv), cwd=cwd or case_dir, env=e,
                         stdin=subprocess.PIPE if stdin is not None else subprocess.DEVNULL,
                         stdout=subprocess.PIPE, stderr=subprocess.PIPE, start_new_session=True)
    timed_out = False
    try:
        out, err = p.communicate(stdin, timeout=timeout)
    except subprocess.TimeoutExpired:
        timed_out = True
        with open(tfile, 'ab') as tf:
            tf.write(b'x')
        try:
            os.killpg(p.pid, signal.SIGKILL)
        except OSError:
            pass
        p.kill()
        out, err = p.communicate()
    st = p.returncode
    if st is not None and st < 0:
        st = 128 - st
    return Run(st, out, err, read_records(e['VH_LOG']), timed_out, time.time() - t0)


_worker_dir = None
_case_seq = 0


def _init_worker(root):
    global _worker_dir
    _worker_dir = os.path.join(root, 'w%d' % os.getpid())
    os.makedirs(_worker_dir, exist_ok=True)
    signal.signal(signal.SIGINT, signal.SIG_IGN)


def fresh_case_dir():
    """A new empty directory private to the calling worker."""
    global _case_seq, _worker_dir
    if _worker_dir is None:
        _init_worker(scratch_root())
    _case_seq += 1
    d = os.path.join(_worker_dir, 'c%d' % _case_seq)
    shutil.rmtree(d, ignore_errors=True)
    os.makedirs(d)
    return d


def drop_case_dir(d):
    shutil.rmtree(d, ignore_errors=True)


def _chunk_apply(args):
    fn, chunk = args
    return [fn(c) for c in chunk]


def pmap(fn, cases, workers=None, chunk=8):
    """fn over every case, in parallel worker processes; results in order.
    fn must be a module-level function; a worker crash is a machinery error."""
    cases = list(cases)
    if not cases:
        return []
    workers = workers or PROC_WORKERS
    chunks = [(fn, cases[i:i + chunk]) for i in range(0, len(cases), chunk)]
    root = scratch_root()
    ctx = multiprocessing.get_context('fork')
    with ctx.Pool(workers, initializer=_init_worker, initargs=(root,)) as pool:
        out = []
        for res in pool.imap(_chunk_apply, chunks):
            out.extend(res)
    return out


def sha(obj):
    return hashlib.sha1(json.dumps(obj, sort_keys=True, default=repr).encode()).hexdigest()[:12]


def jsonable(x):
    if isinstance(x, bytes):
        return x.decode('utf-8', 'backslashreplace')
    if isinstance(x, (list, tuple)):
        return [jsonable(i) for i in x]
    if isinstance(x, dict):
        return {str(k): jsonable(v) for k, v in x.items()}
    if isinstance(x, set):
        return sorted(jsonable(i) for i in x)
    return x


class Report:
    """Collects what one check run covered and found; writes evidence and replay files."""

    def __init__(self, prop, tier):
        self.prop, self.tier = prop, tier
        self.t0 = time.time()
        self.seed = int(os.environ.get('VERIF_SEED', '0') or 0)
        self.evaluations = 0
        self.nontrivial = 0
        self.states = 0
        self.transitions = 0
        self.traces_validated = 0
        self.outcomes = {}
        self.samples = []
        self.viol = {}          # sig -> {'count': n, 'witnesses': [...]}
        self.bounds = []        # completed bound descriptions
        self.cap_hit = False
        self.exhaustive = True
        self.rule = ''
        self.assumptions = []
        self.extra = {}
        self.machinery = []
        self.level = 'model_checking'

    # ---- coverage
    def outcome(self, cls, n=1):
        self.outcomes[cls] = self.outcomes.get(cls, 0) + n

    def sample(self, s):
        if len(self.samples) < 12:
            self.samples.append(jsonable(s))

    def violation(self, sig, case, expected, observed, repro=None, count=1):
        v = self.viol.setdefault(sig, {'count': 0, 'witnesses': []})
        v['count'] += count
        if len(v['witnesses']) < 3:
            v['witnesses'].append({'case': jsonable(case), 'expected': jsonable(expected),
                                   'observed': jsonable(observed), 'repro': repro})

    def merge_engine(self, res):
        """Merge the JSON result of an in-process vcheck engine."""
        self.evaluations += res.get('evaluations', 0)
        self.nontrivial += res.get('nontrivial', 0)
        self.states += res.get('states', 0)
        self.transitions += res.get('transitions', 0) or res.get('evaluations', 0)
        for k, n in res.get('outcomes', {}).items():
            self.outcome(k, n)
        for s in res.get('samples', []):
            self.sample(s)
        for v in res.get('violations', []):
            e = self.viol.setdefault(v['sig'], {'count': 0, 'witnesses': []})
            e['count'] += v['count']
            for w in v['witnesses']:
                if len(e['witnesses']) < 3:
                    e['witnesses'].append({'case': w.get('case'), 'expected': w.get('expected'),
                                           'observed': w.get('observed'), 'repro': None})
        if res.get('capped'):
            self.cap_hit = True
        for m in res.get('machinery_errors', []):
            self.machinery.append(m)
        if 'levels' in res:
            self.bounds.extend(res['levels'])

    # ---- finish
    def finish(self, known):
        wall = time.time() - self.t0
        open_known = {k['signature']: k for k in known if k['property'] == self.prop and k.get('status') == 'open'}
        new = []
        known_hits = []
        for sig in sorted(self.viol):
            v = self.viol[sig]
            if sig in open_known:
                known_hits.append((sig, v))
            else:
                new.append((sig, v))
        rdir = os.path.join(OUT, 'replays', self.prop)
        lines = []
        for sig, v in known_hits:
            k = open_known[sig]
            lines.append('KNOWN-FINDING: property=%s %s [%s; %d case(s) this run]' % (self.prop, k.get('what', sig), sig, v['count']))
        shown = 0
        for sig, v in new:
            shown += 1
            if shown > 25:
                lines.append('  ... and %d more violation classes (see evidence coverage.violation_classes)' % (len(new) - 25))
                break
            os.makedirs(rdir, exist_ok=True)
            w = v['witnesses'][0] if v['witnesses'] else {}
            path = os.path.join(rdir, '%s.json' % sha([sig, w.get('case')]))
            with open(path, 'w') as f:
                json.dump({'property': self.prop, 'tier': self.tier, 'signature': sig, 'count': v['count'],
                           'case': w.get('case'), 'expected': w.get('expected'), 'observed': w.get('observed'),
                           'repro': w.get('repro'), 'more_witnesses': v['witnesses'][1:]}, f, indent=1, default=repr)
            lines.append('VIOLATION property=%s replay=%s' % (self.prop, path))
            lines.append('  signature=%s cases=%d witness=%s' % (sig, v['count'], json.dumps(w.get('case'), default=repr)[:300]))
            lines.append('  expected=%s' % json.dumps(w.get('expected'), default=repr)[:300])
            lines.append('  observed=%s' % json.dumps(w.get('observed'), default=repr)[:300])
        cov = {
            'evaluations': int(self.evaluations),
            'distinct_nontrivial': int(self.nontrivial),
            'rule': self.rule,
            'samples': self.samples or ['(none)'],
            'states': int(self.states if self.states > 0 else max(len(self.outcomes), 1)),
            'transitions': int(max(self.transitions, 0)),
            'traces_validated_against_impl': int(self.traces_validated),
            'exhaustive': bool(self.exhaustive and not self.cap_hit),
            'cap_hit': bool(self.cap_hit),
            'bounds_completed': self.bounds,
            'distinct_outcomes': len(self.outcomes),
            'outcome_classes': self.outcomes,
            'violation_classes': {s: v['count'] for s, v in self.viol.items()},
            'known_finding_classes': [s for s, _ in known_hits],
        }
        cov.update(self.extra)
        ev = {
            'property_id': self.prop,
            'tier': self.tier,
            'seed': self.seed,
            'level': self.level,
            'coverage': cov,
            'assumptions': self.assumptions,
            'wall_s': round(wall, 3),
            'violations': len(new),
        }
        os.makedirs(os.path.join(OUT, 'evidence'), exist_ok=True)
        tmp = os.path.join(OUT, 'evidence', '%s.json.tmp' % self.prop)
        with open(tmp, 'w') as f:
            json.dump(ev, f, indent=1, default=repr)
        os.replace(tmp, os.path.join(OUT, 'evidence', '%s.json' % self.prop))
        for l in lines:
            print(l)
        print('%s %s: evaluations=%d states=%d transitions=%d outcomes=%d new_violation_classes=%d known=%d wall=%.1fs%s' % (
            self.prop, self.tier, self.evaluations, self.states, self.transitions, len(self.outcomes),
            len(new), len(known_hits), wall, ' (cap hit)' if self.cap_hit else ''))
        if self.machinery:
            for m in self.machinery[:10]:
                print('MACHINERY-ERROR: ' + str(m), file=sys.stderr)
            return EXIT_MACHINERY if not new else EXIT_VIOLATION
        return EXIT_VIOLATION if new else EXIT_OK


def load_known():
    p = os.path.join(ROOT, 'known_findings.json')
    try:
        with open(p) as f:
            return json.load(f).get('findings', [])
    except FileNotFoundError:
        return []


def run_engine(prop, tier, extra_args=()):
    """Run the in-process Rust engine for `prop`; returns its JSON result."""
    out = os.path.join(scratch_root(), 'engine-%s.json' % prop)
    sdir = os.path.join(scratch_root(), 'engine-%s' % prop)
    r = subprocess.run([VCHECK, prop, tier, out, sdir, str(WORKERS)] + list(extra_args),
                       stdout=subprocess.PIPE, stderr=subprocess.PIPE)
    if r.returncode != 0 or not os.path.exists(out):
        machinery_error('vcheck %s failed (rc=%s): %s' % (prop, r.returncode, r.stderr.decode('utf-8', 'replace')[-2000:]))
    with open(out) as f:
        return json.load(f)


def shquote(s):
    return "'" + s.replace("'", "'\\''") + "'"


# ---------------------------------------------------------------------------------------------
# batched execution of independent `-c` lines: K commands joined with ';' in one cicada process,
# falling back to one process per case when the batch does not produce exactly the expected records

def _argv_records(run, name='vh-argv'):
    return [r['argv'] for r in run.records if r.get('k') == 'argv' and r.get('name') == name]


def _exec_batch(job):
    """job = (cases, setup); case = {'line': str, 'expect': [argv,...]}.
    Returns one result per case: {'ok': bool, 'observed': [...], 'status': int, 'files': [...], 'info': str}."""
    cases, setup = job
    d = fresh_case_dir()
    try:
        if setup:
            setup(d)
        before = set(os.listdir(d))
        env = {'VH_READ_STDIN': '1'} if False else None

        def one(case):
            dd = fresh_case_dir()
            try:
                if setup:
                    setup(dd)
                b4 = set(os.listdir(dd))
                r = run_cicada(['-c', case['line']], dd, env=env, timeout=15)
                obs = _argv_records(r)
                new = sorted(set(os.listdir(dd)) - b4 - {'vh.log', 'home'})
                ok = (not r.timed_out) and obs == case['expect'] and not new
                return {'ok': ok, 'observed': obs, 'status': r.status, 'files': new, 'timed_out': r.timed_out,
                        'info': r.err[-300:].decode('utf-8', 'replace')}
            finally:
                drop_case_dir(dd)

        if len(cases) > 1:
            line = ' ; '.join(c['line'] for c in cases)
            r = run_cicada(['-c', line], d, env=env, timeout=15 + len(cases))
            obs = _argv_records(r)
            exp = [a for c in cases for a in c['expect']]
            new = sorted(set(os.listdir(d)) - before - {'vh.log', 'home'})
            if not r.timed_out and obs == exp and not new:
                out = []
                for c in cases:
                    out.append({'ok': True, 'observed': c['expect'], 'status': 0, 'files': [], 'timed_out': False, 'info': ''})
                return out
        return [one(c) for c in cases]
    finally:
        drop_case_dir(d)


def exec_lines(cases, setup=None, batch=25):
    """Run every case's line through the real binary (`-c`); returns results in order."""
    jobs = [(cases[i:i + batch], setup) for i in range(0, len(cases), batch)]
    out = []
    for res in pmap(_exec_batch, jobs, chunk=1):
        out.extend(res)
    return out
