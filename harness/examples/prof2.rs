use cicada::verif_hooks as vh;
use std::time::Instant;
fn main(){
    let t=Instant::now();
    for _ in 0..2000 { let _ = vh::Shell::new(); }
    println!("Shell::new {:.1} us", t.elapsed().as_micros() as f64/2000.0);
    let mut sh = vh::Shell::new();
    sh.insert_job(100,100,"a","Running",true);
    sh.insert_job(100,101,"b","Running",true);
    let t=Instant::now();
    for _ in 0..2000 { sh.mark_job_member_stopped(55, 0); }
    println!("mark_job_member_stopped(gid 0) {:.1} us", t.elapsed().as_micros() as f64/2000.0);
    let t=Instant::now();
    for _ in 0..2000 { let _ = sh.get_job_by_gid(5); }
    println!("get_job_by_gid(miss) {:.1} us", t.elapsed().as_micros() as f64/2000.0);
    let t=Instant::now();
    for _ in 0..2000 { vh::try_wait_bg_jobs(&mut sh, false, true); }
    println!("try_wait_bg_jobs {:.1} us", t.elapsed().as_micros() as f64/2000.0);
    let t=Instant::now();
    for _ in 0..2000 { let s = sh.clone(); std::mem::drop(s); }
    println!("clone {:.1} us", t.elapsed().as_micros() as f64/2000.0);
}
