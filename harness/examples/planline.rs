use cicada::verif_hooks as vh;
fn main(){
    let line = std::env::args().nth(1).unwrap();
    let mut sh = vh::Shell::new();
    for seg in vh::line_to_cmds(&line) {
        println!("SEG {:?}", seg);
        match vh::command_line_from_line(&seg, &mut sh) {
            Ok(cl) => { for c in &cl.commands { println!("  tokens={:?} to={:?} from={:?}", c.tokens, c.redirects_to, c.redirect_from); } println!("  envs={:?} bg={}", cl.envs, cl.background); }
            Err(e) => println!("  ERR {}", e),
        }
    }
}
