use cicada::verif_hooks as vh;
use std::time::Instant;
fn main(){
    let lines = ["a$(a)", "a|a>1", "'a b'", "é\\ a", "aaaaa"];
    macro_rules! t { ($name:expr, $e:expr) => {{ let t=Instant::now(); for _ in 0..200 { for l in lines.iter() { let l:&str=l; let _ = $e(l); } } println!("{:28} {:8.1} us", $name, t.elapsed().as_micros() as f64/1000.0); }} }
    t!("parse_line", |l| vh::parse_line(l));
    t!("line_to_cmds", |l| vh::line_to_cmds(l));
    t!("is_arithmetic", |l| vh::is_arithmetic(l));
    t!("redir", |l:&str| vh::tokens_to_redirections(&vh::parse_line(l).tokens));
    t!("from_tokens", |l:&str| vh::command_from_tokens(vh::parse_line(l).tokens));
    t!("expand_args", |l:&str| vh::expand_args(l,&["x".to_string()]));
    t!("script_shape", |l:&str| vh::script_shape(l));
    t!("highlight", |l:&str| vh::highlight(l));
    t!("word_start", |l:&str| vh::escaped_word_start(l));
    t!("complete_path", |l:&str| vh::complete_path(l,false));
    let mut sh = vh::Shell::new();
    t!("from_line", |l:&str| vh::command_line_from_line(l,&mut sh).is_ok());
    t!("Shell::new", |_l:&str| vh::Shell::new());
}
