//! `vh` — multi-call helper program used as the "programs" started by cicada
//! in the checks. The behaviour is selected by the basename of argv[0]
//! (hard links `vh-argv`, `vh-mark`, ...). Every helper appends ONE record
//! (a JSON object on one line, strings hex-encoded, a single O_APPEND write)
//! to the file named by $VH_LOG.
use std::ffi::OsString;
use std::fs::{self, OpenOptions};
use std::io::{Read, Write};
use std::os::unix::ffi::{OsStrExt, OsStringExt};
use std::os::unix::fs::OpenOptionsExt;

fn hex(b: &[u8]) -> String {
    let mut s = String::with_capacity(b.len() * 2);
    for x in b {
        s.push_str(&format!("{:02x}", x));
    }
    s
}

fn fds_of(dir: &str) -> Vec<(i32, String)> {
    let mut v = Vec::new();
    if let Ok(rd) = fs::read_dir(dir) {
        // the directory handle itself shows up as one descriptor: note it and drop it
        let mut entries = Vec::new();
        for e in rd.flatten() {
            let name = e.file_name().to_string_lossy().to_string();
            let target = fs::read_link(e.path())
                .map(|p| p.to_string_lossy().to_string())
                .unwrap_or_else(|_| String::from("?"));
            entries.push((name, target));
        }
        for (name, target) in entries {
            if let Ok(n) = name.parse::<i32>() {
                v.push((n, target));
            }
        }
    }
    v.sort();
    v
}

fn json_fds(v: &[(i32, String)]) -> String {
    let items: Vec<String> = v
        .iter()
        .map(|(n, t)| format!("[{},\"{}\"]", n, hex(t.as_bytes())))
        .collect();
    format!("[{}]", items.join(","))
}

fn append_record(rec: &str) {
    if let Some(path) = std::env::var_os("VH_LOG") {
        if let Ok(mut f) = OpenOptions::new().append(true).create(true).mode(0o644).open(&path) {
            let mut line = rec.as_bytes().to_vec();
            line.push(b'\n');
            let _ = f.write_all(&line);
        }
    }
}

fn raise_nofile() {
    unsafe {
        let mut rl = libc::rlimit { rlim_cur: 0, rlim_max: 0 };
        if libc::getrlimit(libc::RLIMIT_NOFILE, &mut rl) == 0 {
            let want = if rl.rlim_max == libc::RLIM_INFINITY || rl.rlim_max > 4096 { 4096 } else { rl.rlim_max };
            if rl.rlim_cur < want {
                rl.rlim_cur = want;
                libc::setrlimit(libc::RLIMIT_NOFILE, &rl);
            }
        }
    }
}

fn common_fields(kind: &str, args: &[OsString], own_fds: &[(i32, String)]) -> String {
    let argv: Vec<String> = args.iter().map(|a| format!("\"{}\"", hex(a.as_bytes()))).collect();
    let pid = unsafe { libc::getpid() };
    let ppid = unsafe { libc::getppid() };
    let pgid = unsafe { libc::getpgid(0) };
    let cwd = std::env::current_dir().map(|p| p.as_os_str().as_bytes().to_vec()).unwrap_or_default();
    let name = std::env::args_os()
        .next()
        .map(|a| std::path::Path::new(&a).file_name().map(|s| s.to_string_lossy().to_string()).unwrap_or_default())
        .unwrap_or_default();
    format!(
        "\"k\":\"{}\",\"name\":\"{}\",\"argv\":[{}],\"pid\":{},\"ppid\":{},\"pgid\":{},\"cwd\":\"{}\",\"fds\":{}",
        kind,
        name,
        argv.join(","),
        pid,
        ppid,
        pgid,
        hex(&cwd),
        json_fds(own_fds)
    )
}

fn env_json() -> String {
    let mut items = Vec::new();
    for (k, v) in std::env::vars_os() {
        items.push(format!("[\"{}\",\"{}\"]", hex(k.as_bytes()), hex(v.as_bytes())));
    }
    format!("[{}]", items.join(","))
}

fn read_stdin_if_not_tty() -> Option<Vec<u8>> {
    let is_tty = unsafe { libc::isatty(0) == 1 };
    if is_tty {
        return None;
    }
    let mut buf = Vec::new();
    let _ = std::io::stdin().read_to_end(&mut buf);
    Some(buf)
}

fn wait_gate(path: &str) {
    // a gate is a FIFO: opening it for reading blocks until the explorer
    // opens it for writing; a regular file / missing path = poll for existence
    match fs::metadata(path) {
        Ok(m) => {
            use std::os::unix::fs::FileTypeExt;
            if m.file_type().is_fifo() {
                if let Ok(mut f) = fs::File::open(path) {
                    let mut b = [0u8; 1];
                    let _ = f.read(&mut b);
                }
                return;
            }
        }
        Err(_) => {}
    }
    loop {
        if fs::metadata(path).is_ok() {
            return;
        }
        std::thread::sleep(std::time::Duration::from_millis(5));
    }
}

fn main() {
    // descriptors open at entry, before we open anything ourselves
    let own_fds = {
        let v = fds_of("/proc/self/fd");
        // drop the read_dir handle (the highest fd pointing at /proc/<pid>/fd)
        let pid = unsafe { libc::getpid() };
        let me = format!("/proc/{}/fd", pid);
        v.into_iter().filter(|(_, t)| t != &me).collect::<Vec<_>>()
    };
    raise_nofile();
    let args: Vec<OsString> = std::env::args_os().collect();
    let name = std::path::Path::new(&args[0])
        .file_name()
        .map(|s| s.to_string_lossy().to_string())
        .unwrap_or_default();
    let rest: Vec<OsString> = args[1..].to_vec();
    let sargs: Vec<String> = rest.iter().map(|a| a.to_string_lossy().to_string()).collect();

    match name.as_str() {
        "vh-argv" | "vh-argv2" => {
            let ppid = unsafe { libc::getppid() };
            let pfds = {
                let v = fds_of(&format!("/proc/{}/fd", ppid));
                v
            };
            let stdin = if std::env::var_os("VH_READ_STDIN").is_some() {
                read_stdin_if_not_tty()
            } else {
                None
            };
            let mut rec = format!("{{{}", common_fields("argv", &rest, &own_fds));
            rec.push_str(&format!(",\"pfds\":{}", json_fds(&pfds)));
            rec.push_str(&format!(",\"env\":{}", env_json()));
            if let Some(s) = stdin {
                rec.push_str(&format!(",\"stdin\":\"{}\"", hex(&s)));
            }
            rec.push('}');
            append_record(&rec);
        }
        "vh-mark" => {
            // vh-mark ID STATUS [anything...]
            // STATUS may be `sigN`: the helper then ends by signal N
            let status: i32 = sargs.get(1).and_then(|s| s.parse().ok()).unwrap_or(0);
            let rec = format!("{{{}}}", common_fields("mark", &rest, &own_fds));
            append_record(&rec);
            if let Some(n) = sargs.get(1).and_then(|s| s.strip_prefix("sig")).and_then(|n| n.parse::<i32>().ok()) {
                unsafe {
                    libc::signal(n, libc::SIG_DFL);
                    libc::kill(libc::getpid(), n);
                }
                std::thread::sleep(std::time::Duration::from_secs(5));
            }
            std::process::exit(status);
        }
        "vh-io" => {
            // vh-io TAG [STATUS]: read stdin to EOF, write out:TAG / err:TAG
            let tag = sargs.get(0).cloned().unwrap_or_default();
            let status: i32 = sargs.get(1).and_then(|s| s.parse().ok()).unwrap_or(0);
            let stdin = read_stdin_if_not_tty();
            let mut rec = format!("{{{}", common_fields("io", &rest, &own_fds));
            if let Some(s) = &stdin {
                rec.push_str(&format!(",\"stdin\":\"{}\"", hex(s)));
            }
            rec.push('}');
            append_record(&rec);
            let _ = std::io::stdout().write_all(format!("out:{}\n", tag).as_bytes());
            let _ = std::io::stdout().flush();
            let _ = std::io::stderr().write_all(format!("err:{}\n", tag).as_bytes());
            std::process::exit(status);
        }
        "vh-emit" => {
            // vh-emit K [STATUS]: print the bytes of $VH_DIR/emit.K
            let k = sargs.get(0).cloned().unwrap_or_default();
            let status: i32 = sargs.get(1).and_then(|s| s.parse().ok()).unwrap_or(0);
            let dir = std::env::var("VH_DIR").unwrap_or_else(|_| ".".to_string());
            let data = fs::read(format!("{}/emit.{}", dir, k)).unwrap_or_default();
            let mut rec = format!("{{{}", common_fields("emit", &rest, &own_fds));
            rec.push_str(&format!(",\"env\":{}", env_json()));
            rec.push('}');
            append_record(&rec);
            let _ = std::io::stdout().write_all(&data);
            let _ = std::io::stdout().flush();
            let _ = std::io::stderr().write_all(format!("emiterr:{}\n", k).as_bytes());
            std::process::exit(status);
        }
        "vh-cond" => {
            // vh-cond ID: consume the next scripted answer from $VH_DIR/cond
            // (a string of '0'/'1' characters, position kept in cond.pos)
            let dir = std::env::var("VH_DIR").unwrap_or_else(|_| ".".to_string());
            let answers = fs::read(format!("{}/cond", dir)).unwrap_or_default();
            let pos_path = format!("{}/cond.pos", dir);
            let pos: usize = fs::read_to_string(&pos_path).ok().and_then(|s| s.trim().parse().ok()).unwrap_or(0);
            let ans = if pos < answers.len() { answers[pos] } else { b'1' };
            let _ = fs::write(&pos_path, format!("{}", pos + 1));
            let status = if ans == b'0' { 0 } else { 1 };
            let mut rec = format!("{{{}", common_fields("cond", &rest, &own_fds));
            rec.push_str(&format!(",\"ans\":{},\"pos\":{}", status, pos));
            rec.push('}');
            append_record(&rec);
            std::process::exit(status);
        }
        "vh-wait" => {
            // vh-wait GATE [STATUS]: record, then block until the gate opens
            let gate = sargs.get(0).cloned().unwrap_or_default();
            let status: i32 = sargs.get(1).and_then(|s| s.parse().ok()).unwrap_or(0);
            let rec = format!("{{{}}}", common_fields("wait", &rest, &own_fds));
            append_record(&rec);
            wait_gate(&gate);
            std::process::exit(status);
        }
        "vh-stage" => {
            // vh-stage IDX ROLE SIZE GATE END
            //   ROLE: gen (write SIZE bytes), copy (stdin -> stdout), sink (count stdin),
            //         noread (exit path without reading), genonly/none
            //   END: "e<code>" exit with code, "s<signal>" kill self with signal
            let idx = sargs.get(0).cloned().unwrap_or_default();
            let role = sargs.get(1).cloned().unwrap_or_default();
            let size: usize = sargs.get(2).and_then(|s| s.parse().ok()).unwrap_or(0);
            let gate = sargs.get(3).cloned().unwrap_or_default();
            let end = sargs.get(4).cloned().unwrap_or_else(|| "e0".to_string());
            let rec = format!("{{{},\"phase\":\"start\"}}", common_fields("stage", &rest, &own_fds));
            append_record(&rec);
            let mut nread: u64 = 0;
            let mut sum: u64 = 0;
            let mut nwritten: u64 = 0;
            fn byte_at(i: u64) -> u8 {
                ((i.wrapping_mul(2654435761) >> 7) & 0xff) as u8
            }
            match role.as_str() {
                "gen" => {
                    let mut out = std::io::stdout();
                    let mut i: u64 = 0;
                    let mut buf = Vec::with_capacity(4096);
                    while (i as usize) < size {
                        buf.clear();
                        let n = std::cmp::min(4096, size - i as usize);
                        for j in 0..n {
                            buf.push(byte_at(i + j as u64));
                        }
                        if out.write_all(&buf).is_err() {
                            break;
                        }
                        i += n as u64;
                        nwritten = i;
                    }
                    let _ = out.flush();
                }
                "copy" => {
                    let mut inp = std::io::stdin();
                    let mut out = std::io::stdout();
                    let mut buf = [0u8; 4096];
                    loop {
                        match inp.read(&mut buf) {
                            Ok(0) => break,
                            Ok(n) => {
                                for b in &buf[..n] {
                                    sum = sum.wrapping_mul(31).wrapping_add(*b as u64);
                                }
                                nread += n as u64;
                                if out.write_all(&buf[..n]).is_err() {
                                    break;
                                }
                                nwritten += n as u64;
                            }
                            Err(_) => break,
                        }
                    }
                    let _ = out.flush();
                }
                "sink" => {
                    let mut inp = std::io::stdin();
                    let mut buf = [0u8; 4096];
                    loop {
                        match inp.read(&mut buf) {
                            Ok(0) => break,
                            Ok(n) => {
                                for b in &buf[..n] {
                                    sum = sum.wrapping_mul(31).wrapping_add(*b as u64);
                                }
                                nread += n as u64;
                            }
                            Err(_) => break,
                        }
                    }
                }
                _ => {}
            }
            // release both ends so neighbours see EOF / SIGPIPE, then wait at the gate
            unsafe {
                libc::close(0);
                libc::close(1);
            }
            let rec = format!(
                "{{\"k\":\"stage\",\"phase\":\"moved\",\"idx\":\"{}\",\"pid\":{},\"nread\":{},\"sum\":{},\"nwritten\":{}}}",
                idx,
                unsafe { libc::getpid() },
                nread,
                sum,
                nwritten
            );
            append_record(&rec);
            if !gate.is_empty() && gate != "-" {
                wait_gate(&gate);
            }
            if let Some(code) = end.strip_prefix('e') {
                std::process::exit(code.parse().unwrap_or(0));
            } else if let Some(sig) = end.strip_prefix('s') {
                let s: i32 = sig.parse().unwrap_or(15);
                unsafe {
                    libc::signal(s, libc::SIG_DFL);
                    libc::kill(libc::getpid(), s);
                }
                std::thread::sleep(std::time::Duration::from_secs(5));
                std::process::exit(99);
            }
        }
        _ => {
            eprintln!("vh: unknown helper name {:?}", name);
            let _ = OsString::from_vec(vec![]);
            std::process::exit(64);
        }
    }
}
