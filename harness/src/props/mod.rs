pub mod c05;
pub mod c19;
