pub mod c01;
pub mod c05;
pub mod c06;
pub mod c10;
pub mod c12;
pub mod c13;
pub mod c16;
pub mod c19;
