//! C13 — results of expansions are data and are never re-read as shell syntax (plan level).
//!
//! Payloads containing operator characters are delivered through $V, ${V}, $(cmd), `cmd` and a file name
//! matched by `*`, unquoted and double-quoted, at every argument position; the real planner
//! (`CommandLine::from_line`, with the substitution really executed) must produce the template's
//! structure with the payload as argument text only.
use crate::explore::{self, Acc, CaseRepr, SweepOpts, SweepResult};
use crate::plan;
use crate::Ctx;
use cicada::verif_hooks as vh;
use serde_json::{json, Value};
use std::time::{Duration, Instant};

pub const PAYLOADS: [&str; 22] = [
    "|", "&", ";", "<", ">", "#", "a>b", "a|b", "x &", "<f", ">f", ">>f", "2>&1", ";x", "#c", "a b", "&&", "||", "<<<", "a;b", "1>&2", "a&",
];
pub const DELIVERY: [&str; 8] = ["$V", "${V}", "$(vh-emit K)", "`vh-emit K`", "glob", "$V-local", "$(printf %s 'P')", "`printf %s 'P'`"];
pub const POSITIONS: [&str; 6] = ["only", "first", "middle", "last", "before-pipe", "before-semicolon"];

#[derive(Clone)]
pub struct Case {
    payload: usize,
    delivery: usize,
    dq: bool,
    pos: usize,
}

impl Case {
    fn carrier(&self) -> String {
        let k = self.payload;
        let c = match DELIVERY[self.delivery] {
            "$V" | "$V-local" => "$V".to_string(),
            "${V}" => "${V}".to_string(),
            "$(vh-emit K)" => format!("$(vh-emit {})", k),
            "`vh-emit K`" => format!("`vh-emit {}`", k),
            "$(printf %s 'P')" => format!("$(printf %s '{}')", PAYLOADS[k]),
            "`printf %s 'P'`" => format!("`printf %s '{}'`", PAYLOADS[k]),
            _ => format!("g{}/*", k),
        };
        if self.dq {
            format!("\"{}\"", c)
        } else {
            c
        }
    }
    fn line(&self) -> String {
        let c = self.carrier();
        match POSITIONS[self.pos] {
            "only" => format!("vh-argv {}", c),
            "first" => format!("vh-argv {} z", c),
            "middle" => format!("vh-argv y {} z", c),
            "last" => format!("vh-argv y {}", c),
            "before-pipe" => format!("vh-argv y {} | vh-argv2", c),
            _ => format!("vh-argv y {} ; vh-argv2 w", c),
        }
    }
    fn is_glob(&self) -> bool {
        DELIVERY[self.delivery] == "glob"
    }
}

impl CaseRepr for Case {
    fn repr(&self) -> Value {
        json!({"line": self.line(), "payload": PAYLOADS[self.payload], "delivery": DELIVERY[self.delivery],
               "double_quoted": self.dq, "position": POSITIONS[self.pos]})
    }
}

fn run_case(c: &Case, acc: &mut Acc) {
    acc.eval();
    let p = PAYLOADS[c.payload];
    let mut sh = vh::Shell::new();
    std::env::remove_var("V");
    match DELIVERY[c.delivery] {
        "$V-local" => sh.set_env("V", p),
        "$V" | "${V}" => std::env::set_var("V", p),
        _ => {}
    }
    let line = c.line();
    let segs = plan::plan_line(&mut sh, &line);
    let expected_segs = if POSITIONS[c.pos] == "before-semicolon" { 3 } else { 1 };
    let nstages = if POSITIONS[c.pos] == "before-pipe" { 2 } else { 1 };
    let (pre, post): (Vec<&str>, Vec<&str>) = match POSITIONS[c.pos] {
        "only" => (vec![], vec![]),
        "first" => (vec![], vec!["z"]),
        "middle" => (vec!["y"], vec!["z"]),
        _ => (vec!["y"], vec![]),
    };
    // what the payload may legitimately become
    let text: String = if c.is_glob() {
        if c.dq { format!("g{}/*", c.payload) } else { format!("g{}/{}", c.payload, p) }
    } else {
        p.to_string()
    };
    let mut alternatives: Vec<Vec<String>> = vec![vec![text.clone()]];
    if !c.dq && !c.is_glob() {
        alternatives.push(text.split_whitespace().map(|s| s.to_string()).collect());
    }
    let kind = DELIVERY[c.delivery];
    let sigbase = format!("{}:{}:{}", kind, if c.dq { "dq" } else { "unquoted" }, p);
    let fail = |acc: &mut Acc, dev: &str, observed: Value| {
        acc.outcome(&format!("deviation:{}", dev));
        acc.violation(&format!("{}:{}:{}", dev, sigbase, POSITIONS[c.pos]), c.repr(),
                      json!({"segments": expected_segs, "stages": nstages, "argv_payload_part": alternatives, "background": false, "redirections": 0}), observed);
    };
    if segs.len() != expected_segs {
        return fail(acc, "list-split", json!(format!("{} list segments", segs.len())));
    }
    let first = match &segs[0] {
        Ok(p) => p.clone(),
        Err(e) => return fail(acc, "plan-error", json!(e)),
    };
    if first.background {
        return fail(acc, "background", first.to_json());
    }
    if !first.envs.is_empty() {
        return fail(acc, "env-assign", first.to_json());
    }
    if first.commands.len() != nstages {
        return fail(acc, "stages", first.to_json());
    }
    for cmd in &first.commands {
        if !cmd.redirects_to.is_empty() || cmd.redirect_from.is_some() {
            return fail(acc, "redirect", first.to_json());
        }
    }
    let argv = first.argv(0);
    let mut ok = false;
    for alt in &alternatives {
        let mut want: Vec<String> = vec!["vh-argv".to_string()];
        want.extend(pre.iter().map(|s| s.to_string()));
        want.extend(alt.iter().cloned());
        want.extend(post.iter().map(|s| s.to_string()));
        if argv == want {
            ok = true;
        }
    }
    if !ok {
        return fail(acc, "argv", json!(argv));
    }
    acc.nontrivial();
    acc.outcome(&format!("data:{}:{}", kind, if c.dq { "dq" } else { "unquoted" }));
    acc.state(&format!("{}|{:?}", line, argv));
    acc.sample(c.repr());
}

/// Words in which the reference is glued to literal text, including literal operator characters that are ordinary
/// characters inside a word (`x&y$V`, `a=1&b=${V}`): differential oracle — the plan must be the plan obtained with a
/// neutral payload, with the neutral text replaced by the payload (the structure does not depend on the value).
pub const GLUES: [&str; 9] = ["p{}", "{}s", "x&y{}", "{}x&y", "u=1&v={}", "a.b:{}", "-o{}", "x%{}+y", "{}"];
/// the line around the word: plain, and next to a REAL input redirection or here-string (the produced word must not be
/// taken for one more operator, nor swallow the real one), also as the operand of a here-string
pub const SHAPES: [&str; 6] = ["vh-argv y {} z", "vh-argv y {}", "vh-argv y {} z < g", "vh-argv y {} z <<< w", "vh-argv y z <<< {}", "vh-argv {} z < g"];
const NEUTRAL: &str = "QNEUTRALQ";

#[derive(Clone)]
pub struct GlueCase {
    payload: usize,
    delivery: usize,
    glue: usize,
    shape: usize,
}

impl GlueCase {
    fn line(&self) -> String {
        let c = match DELIVERY[self.delivery] {
            "${V}" => "${V}".to_string(),
            // (one emit file per worker process)
            "$(vh-emit K)" => format!("$(vh-emit V{})", std::process::id()),
            "`vh-emit K`" => format!("`vh-emit V{}`", std::process::id()),
            _ => "$V".to_string(),
        };
        let w = GLUES[self.glue].replace("{}", &c);
        SHAPES[self.shape].replace("{}", &w)
    }
}

impl CaseRepr for GlueCase {
    fn repr(&self) -> Value {
        json!({"line": self.line(), "payload": PAYLOADS[self.payload], "delivery": DELIVERY[self.delivery], "word": GLUES[self.glue], "line_shape": SHAPES[self.shape]})
    }
}

fn plan_with(c: &GlueCase, value: &str) -> Vec<Result<plan::PlanView, String>> {
    let mut sh = vh::Shell::new();
    std::env::remove_var("V");
    match DELIVERY[c.delivery] {
        "$V-local" => sh.set_env("V", value),
        "$V" | "${V}" => std::env::set_var("V", value),
        _ => {
            let _ = std::fs::write(format!("emit.V{}", std::process::id()), format!("{}\n", value));
        }
    }
    plan::plan_line(&mut sh, &c.line())
}

fn run_glue_case(c: &GlueCase, acc: &mut Acc) {
    acc.eval();
    let p = PAYLOADS[c.payload];
    let reference = plan_with(c, NEUTRAL);
    let got = plan_with(c, p);
    let render = |v: &Vec<Result<plan::PlanView, String>>, from: &str, to: &str| -> String {
        let parts: Vec<String> = v.iter().map(|r| match r {
            // (the quote tag of a token is not compared: a value with operator characters is tagged as data)
            Ok(pl) => format!("bg={} envs={:?} cmds={:?}", pl.background, pl.envs,
                              pl.commands.iter().map(|c| (c.tokens.iter().map(|t| t.1.clone()).collect::<Vec<_>>(), c.redirects_to.clone(), c.redirect_from.clone())).collect::<Vec<_>>()),
            Err(e) => format!("ERR {}", e),
        }).collect();
        parts.join(" || ").replace(from, to)
    };
    // the payload may be split at blanks in an unquoted word: compare with the reference planned for each blank-free
    // payload only (payloads with a blank are compared on structure: number of segments / commands / redirections)
    let want = render(&reference, NEUTRAL, p);
    let have = render(&got, NEUTRAL, p);
    let structural = |v: &Vec<Result<plan::PlanView, String>>| -> String {
        v.iter().map(|r| match r {
            Ok(pl) => format!("cmds={} bg={} envs={} redirs={}", pl.commands.len(), pl.background, pl.envs.len(),
                              pl.commands.iter().map(|c| c.redirects_to.len() + c.redirect_from.is_some() as usize).sum::<usize>()),
            Err(e) => format!("ERR {}", e),
        }).collect::<Vec<_>>().join(" || ")
    };
    let ok = if p.contains(' ') { structural(&reference) == structural(&got) } else { want == have };
    if ok {
        acc.nontrivial();
        acc.outcome("data:glued-word");
        acc.state(&format!("{}|{}", c.line().replace(&std::process::id().to_string(), ""), have));
    } else {
        acc.outcome("deviation:glued-word");
        let shape = if c.shape < 2 { String::new() } else { format!(":{}", SHAPES[c.shape].replace("vh-argv ", "").replace("{}", "W")) };
        acc.violation(&format!("structure-depends-on-value:{}:{}{}:{}", DELIVERY[c.delivery], GLUES[c.glue], shape, p), c.repr(), json!({"plan_with_neutral_value_then_substituted": want}), json!({"plan": have}));
    }
}

fn glue_cases() -> Box<dyn Iterator<Item = GlueCase>> {
    let mut v = Vec::new();
    for payload in 0..PAYLOADS.len() {
        for delivery in 0..DELIVERY.len() {
            if matches!(DELIVERY[delivery], "glob" | "$(printf %s 'P')" | "`printf %s 'P'`") {
                continue;
            }
            for glue in 0..GLUES.len() {
                for shape in 0..SHAPES.len() {
                    // the whole-word form next to plain words is the main layer; real redirections: whole word and one glued form
                    let wanted = if shape < 2 { GLUES[glue] != "{}" } else { GLUES[glue] == "{}" || GLUES[glue] == "p{}" };
                    if wanted {
                        v.push(GlueCase { payload, delivery, glue, shape });
                    }
                }
            }
        }
    }
    Box::new(v.into_iter())
}

fn cases() -> Box<dyn Iterator<Item = Case>> {
    let mut v = Vec::new();
    for payload in 0..PAYLOADS.len() {
        for delivery in 0..DELIVERY.len() {
            if DELIVERY[delivery] == "glob" && PAYLOADS[payload].contains('/') {
                continue;
            }
            for dq in [false, true] {
                for pos in 0..POSITIONS.len() {
                    v.push(Case { payload, delivery, dq, pos });
                }
            }
        }
    }
    Box::new(v.into_iter())
}

fn opts_clone(o: &SweepOpts) -> SweepOpts {
    SweepOpts { workers: o.workers, case_limit: o.case_limit, deadline: o.deadline, scratch: o.scratch.clone(), label: o.label.clone(), samples_per_worker: o.samples_per_worker }
}

pub fn run(ctx: &Ctx) -> Value {
    let cwd = format!("{}/c13cwd", ctx.scratch);
    std::fs::create_dir_all(&cwd).unwrap();
    for (k, p) in PAYLOADS.iter().enumerate() {
        std::fs::write(format!("{}/emit.{}", cwd, k), format!("{}\n", p)).unwrap();
        if !p.contains('/') {
            std::fs::create_dir_all(format!("{}/g{}", cwd, k)).unwrap();
            std::fs::write(format!("{}/g{}/{}", cwd, k, p), b"x").unwrap();
        }
    }
    std::env::set_current_dir(&cwd).unwrap();
    let helpers = ctx.args.first().cloned().unwrap_or_else(|| "/verif/target/helpers".to_string());
    std::env::set_var("PATH", format!("{}:/usr/bin:/bin", helpers));
    std::env::set_var("VH_DIR", &cwd);
    std::env::set_var("VH_LOG", format!("{}/vh.log", cwd));
    std::env::set_var("HOME", &cwd);
    std::fs::write(format!("{}/emit.V", cwd), b"x\n").unwrap();
    std::fs::write(format!("{}/g", cwd), b"from-g\n").unwrap();
    let before: std::collections::BTreeSet<String> = std::fs::read_dir(&cwd).unwrap().flatten().map(|e| e.file_name().to_string_lossy().to_string()).collect();
    let deadline = Instant::now() + Duration::from_secs(if ctx.thorough() { 600 } else { 40 });
    let opts = SweepOpts {
        // command substitution forks and execs: few workers (process creation does not scale here)
        workers: 4,
        case_limit: Duration::from_secs(5),
        deadline: Some(deadline),
        scratch: ctx.scratch.clone(),
        label: "c13".into(),
        samples_per_worker: 2,
    };
    let t = Instant::now();
    let mut total = SweepResult::default();
    let r = explore::par_sweep(cases, run_case, &opts);
    let mut levels = vec![json!({"layer": "payloads x deliveries x quote x positions", "cases": r.cases, "complete": !r.capped, "wall_s": t.elapsed().as_secs_f64()})];
    total.merge(r);
    let t = Instant::now();
    let r = explore::par_sweep(glue_cases, run_glue_case, &SweepOpts { workers: 4, label: "c13g".into(), ..opts_clone(&opts) });
    levels.push(json!({"layer": "reference glued to literal text (8 word shapes, incl. literal & inside the word) x {last, not last}, and whole / glued words next to a real `< file`, `<<< word` and as here-string operand; x payloads x deliveries; differential against a neutral value", "cases": r.cases, "complete": !r.capped, "wall_s": t.elapsed().as_secs_f64()}));
    total.merge(r);
    // planning must not have created or touched any file in the directory
    let after: std::collections::BTreeSet<String> = std::fs::read_dir(&cwd).unwrap().flatten().map(|e| e.file_name().to_string_lossy().to_string()).collect();
    let new_files: Vec<&String> = after.difference(&before).filter(|f| *f != "vh.log" && !f.starts_with("emit.V")).collect();
    let mut out = total.to_json();
    if !new_files.is_empty() {
        out["machinery_errors"] = json!([format!("planning created files: {:?}", new_files)]);
    }
    out["levels"] = json!(levels);
    out["payloads"] = json!(PAYLOADS.to_vec());
    out
}
