//! C12 — brace, range, tilde and filename expansion yield exactly the specified words (plan level).
use crate::explore::{self, Acc, CaseRepr, SweepOpts, SweepResult};
use crate::plan;
use crate::Ctx;
use cicada::verif_hooks as vh;
use serde_json::{json, Value};
use std::time::{Duration, Instant};

#[derive(Clone, Debug)]
pub enum Case {
    Brace { term: String, template: usize },
    BracePair { a: String, b: String },
    Range { m: i32, n: i32, s: Option<u32>, pre: &'static str, post: &'static str, template: usize },
    Tilde { word: &'static str },
    Glob { pop: u32, pattern: usize, template: usize },
}

const TEMPLATES: [&str; 4] = ["only", "middle", "after-quoted", "before-quoted"];
pub const POP: [&str; 9] = ["a", "ab", "b", ".h", "a b", "d", "d/e", ".k", ".k/e"];
pub const PATTERNS: [&str; 11] = ["*", "a*", "*b", ".*", "d/*", "x*", "'*'", "\"a*\"", "*a*", "a*b", "*/e"];

fn wrap(template: usize, word: &str, expansion: &[String]) -> (String, Vec<String>) {
    let mut argv = vec!["vh-argv".to_string()];
    match TEMPLATES[template] {
        "only" => {
            argv.extend(expansion.iter().cloned());
            (format!("vh-argv {}", word), argv)
        }
        "middle" => {
            argv.push("x".into());
            argv.extend(expansion.iter().cloned());
            argv.push("y".into());
            (format!("vh-argv x {} y", word), argv)
        }
        "after-quoted" => {
            argv.push("q {1,2} *".into());
            argv.extend(expansion.iter().cloned());
            (format!("vh-argv 'q {{1,2}} *' {}", word), argv)
        }
        _ => {
            argv.extend(expansion.iter().cloned());
            argv.push("~ {a,b}".into());
            (format!("vh-argv {} \"~ {{a,b}}\"", word), argv)
        }
    }
}

// ----- brace reference -------------------------------------------------------------------------

/// Parse a well-formed brace term; None if not well-formed by the grammar
/// term := atom* ; atom := 'a' | 'b' | '{' term (',' term)+ '}' | '{' term '}'
/// (a pair of braces without a comma is literal text around its contents)
#[derive(Debug, Clone)]
enum Atom {
    Lit(char),
    Group(Vec<Vec<Atom>>),
    Single(Vec<Atom>),
}

fn parse_term(b: &[char], pos: &mut usize, depth: usize, max_depth: &mut usize) -> Option<Vec<Atom>> {
    let mut out = Vec::new();
    while *pos < b.len() {
        match b[*pos] {
            'a' | 'b' => {
                out.push(Atom::Lit(b[*pos]));
                *pos += 1;
            }
            '{' => {
                *pos += 1;
                *max_depth = (*max_depth).max(depth + 1);
                let mut alts = Vec::new();
                loop {
                    let t = parse_term(b, pos, depth + 1, max_depth)?;
                    alts.push(t);
                    if *pos >= b.len() {
                        return None;
                    }
                    if b[*pos] == ',' {
                        *pos += 1;
                        continue;
                    }
                    if b[*pos] == '}' {
                        *pos += 1;
                        break;
                    }
                    return None;
                }
                if alts.len() < 2 {
                    out.push(Atom::Single(alts.pop().unwrap()));
                } else {
                    out.push(Atom::Group(alts));
                }
            }
            ',' | '}' => {
                if depth == 0 {
                    return None;
                }
                return Some(out);
            }
            _ => return None,
        }
    }
    if depth > 0 {
        return None;
    }
    Some(out)
}

fn expand_atoms(atoms: &[Atom]) -> Vec<String> {
    match atoms.split_first() {
        None => vec![String::new()],
        Some((first, rest)) => {
            let tails = expand_atoms(rest);
            let heads: Vec<String> = match first {
                Atom::Lit(c) => vec![c.to_string()],
                Atom::Group(alts) => alts.iter().flat_map(|a| expand_atoms(a)).collect(),
                Atom::Single(inner) => expand_atoms(inner).into_iter().map(|x| format!("{{{}}}", x)).collect(),
            };
            let mut out = Vec::new();
            for h in &heads {
                for t in &tails {
                    out.push(format!("{}{}", h, t));
                }
            }
            out
        }
    }
}

/// Some(expansion) for a well-formed term with at least one group.
pub fn brace_reference(term: &str, max_nest: usize, max_alts: usize, max_groups: usize) -> Option<Vec<String>> {
    let b: Vec<char> = term.chars().collect();
    let mut pos = 0;
    let mut depth = 0;
    let atoms = parse_term(&b, &mut pos, 0, &mut depth)?;
    if pos != b.len() || depth == 0 || depth > max_nest {
        return None;
    }
    fn real_groups(atoms: &[Atom]) -> usize {
        atoms.iter().map(|a| match a {
            Atom::Lit(_) => 0,
            Atom::Group(alts) => 1 + alts.iter().map(|t| real_groups(t)).sum::<usize>(),
            Atom::Single(inner) => real_groups(inner),
        }).sum()
    }
    if real_groups(&atoms) == 0 {
        return None;    // nothing to expand: literal word, not a brace term
    }
    fn limits(atoms: &[Atom], max_alts: usize, groups: &mut usize) -> bool {
        for a in atoms {
            if let Atom::Single(inner) = a {
                let mut g = 0;
                if !limits(inner, max_alts, &mut g) {
                    return false;
                }
            }
            if let Atom::Group(alts) = a {
                *groups += 1;
                if alts.len() > max_alts {
                    return false;
                }
                for t in alts {
                    let mut g = 0;
                    if !limits(t, max_alts, &mut g) {
                        return false;
                    }
                }
            }
        }
        true
    }
    let mut groups = 0;
    if !limits(&atoms, max_alts, &mut groups) || groups > max_groups {
        return None;
    }
    Some(expand_atoms(&atoms))
}

fn range_reference(m: i32, n: i32, s: Option<u32>) -> Vec<String> {
    // (exact arithmetic: the bounds may sit at the ends of the 32-bit range)
    let step: i64 = match s {
        None | Some(0) => 1,
        Some(x) => x as i64,
    };
    let (m, n) = (m as i64, n as i64);
    let mut out = Vec::new();
    let mut v = m;
    if m <= n {
        while v <= n {
            out.push(v.to_string());
            v += step;
        }
    } else {
        while v >= n {
            out.push(v.to_string());
            v -= step;
        }
    }
    out
}

fn glob_match(pat: &[char], name: &[char]) -> bool {
    match pat.split_first() {
        None => name.is_empty(),
        Some(('*', rest)) => (0..=name.len()).any(|i| glob_match(rest, &name[i..])),
        Some((c, rest)) => !name.is_empty() && name[0] == *c && glob_match(rest, &name[1..]),
    }
}

fn glob_reference(pop: u32, pattern: &str) -> Vec<String> {
    if pattern.starts_with('\'') || pattern.starts_with('"') {
        return vec![pattern[1..pattern.len() - 1].to_string()];
    }
    let present: Vec<&str> = POP.iter().enumerate().filter(|(i, _)| pop & (1 << i) != 0).map(|(_, s)| *s).collect();
    // component by component: a literal component names itself, a component with `*` matches non-hidden names
    // (hidden ones only when it is written `.*...`) -- in every position of the path
    let pcomps: Vec<&str> = pattern.split('/').collect();
    let mut out: Vec<String> = Vec::new();
    for e in &present {
        let ecomps: Vec<&str> = e.split('/').collect();
        if ecomps.len() != pcomps.len() {
            continue;
        }
        let ok = pcomps.iter().zip(ecomps.iter()).all(|(p, n)| {
            if !p.contains('*') {
                return p == n;
            }
            if n.starts_with('.') && !p.starts_with(".*") {
                return false;
            }
            let pc: Vec<char> = p.chars().collect();
            let nc: Vec<char> = n.chars().collect();
            glob_match(&pc, &nc)
        });
        if ok {
            out.push(e.to_string());
        }
    }
    out.sort();
    if out.is_empty() {
        out.push(pattern.to_string());
    }
    out
}

impl Case {
    fn render(&self) -> (String, Vec<Vec<String>>, &'static str) {
        // (line, acceptable argv lists, kind)
        match self {
            Case::Brace { term, template } => {
                let exp = brace_reference(term, 3, 4, 3).unwrap();
                let (line, argv) = wrap(*template, term, &exp);
                (line, vec![argv], "brace")
            }
            Case::BracePair { a, b } => {
                let mut exp = brace_reference(a, 3, 4, 3).unwrap();
                exp.extend(brace_reference(b, 3, 4, 3).unwrap());
                let mut argv = vec!["vh-argv".to_string()];
                argv.extend(exp);
                (format!("vh-argv {} {}", a, b), vec![argv], "brace-pair")
            }
            Case::Range { m, n, s, pre, post, template } => {
                let word = match s {
                    None => format!("{}{{{}..{}}}{}", pre, m, n, post),
                    Some(x) => format!("{}{{{}..{}..{}}}{}", pre, m, n, x, post),
                };
                let exp: Vec<String> = range_reference(*m, *n, *s).into_iter().map(|v| format!("{}{}{}", pre, v, post)).collect();
                let (line, argv) = wrap(*template, &word, &exp);
                (line, vec![argv], if pre.is_empty() && post.is_empty() { "range" } else { "range-with-text" })
            }
            Case::Tilde { word } => {
                let home = "/HOMEMARK";
                let w = *word;
                let exp = if w == "~" {
                    home.to_string()
                } else if let Some(rest) = w.strip_prefix("~/") {
                    format!("{}/{}", home, rest)
                } else if w.starts_with('\'') || w.starts_with('"') {
                    w[1..w.len() - 1].to_string()
                } else {
                    w.to_string()
                };
                let (line, argv) = wrap(1, w, &[exp]);
                (line, vec![argv], "tilde")
            }
            Case::Glob { pop, pattern, template } => {
                let exp = glob_reference(*pop, PATTERNS[*pattern]);
                let word = if PATTERNS[*pattern].contains('/') || !PATTERNS[*pattern].contains(['\'', '"']) {
                    PATTERNS[*pattern].to_string()
                } else {
                    PATTERNS[*pattern].to_string()
                };
                let (line, argv) = wrap(*template, &word, &exp);
                (line, vec![argv], "glob")
            }
        }
    }
}

impl CaseRepr for Case {
    fn repr(&self) -> Value {
        let (line, alts, kind) = self.render();
        let mut v = json!({"line": line, "kind": kind, "expected_argv": alts[0]});
        if let Case::Glob { pop, .. } = self {
            let present: Vec<&str> = POP.iter().enumerate().filter(|(i, _)| pop & (1 << i) != 0).map(|(_, s)| *s).collect();
            v["population"] = json!(present);
        }
        v
    }
}

fn run_case(c: &Case, acc: &mut Acc, scratch: &str) {
    acc.eval();
    let (line, alts, kind) = c.render();
    if let Case::Glob { pop, .. } = c {
        let dir = format!("{}/c12pop/{}", scratch, pop);
        std::env::set_current_dir(&dir).unwrap();
    }
    let mut sh = vh::Shell::new();
    let r = plan::plan(&mut sh, &line);
    let detail = match c {
        Case::Brace { term, .. } => {
            let nest = term.chars().fold((0, 0), |(d, m), ch| if ch == '{' { (d + 1, m.max(d + 1)) } else if ch == '}' { (d - 1, m) } else { (d, m) }).1;
            format!("nest{}{}", nest, if term.contains("{a}") || term.contains("{b}") || term.contains("{}") || term.contains("{{") { ":group-without-comma" } else if term.contains(",}") || term.contains("{,") || term.contains(",,") { ":empty-alt" } else { "" })
        }
        Case::Range { m, n, s, .. } => format!("{}{}", if m > n { "descending" } else if m == n { "degenerate" } else { "ascending" }, match s { None => "", Some(0) => ":step0", Some(1) => ":step1", Some(_) => ":stepN" }),
        Case::Glob { pattern, .. } => PATTERNS[*pattern].to_string(),
        Case::Tilde { word } => word.to_string(),
        Case::BracePair { .. } => String::new(),
    };
    match r {
        Ok(p) if p.commands.len() == 1 && !p.background && p.envs.is_empty() && p.commands[0].redirects_to.is_empty() && p.commands[0].redirect_from.is_none() => {
            let argv = p.argv(0);
            let nonempty = |v: &Vec<String>| v.iter().filter(|s| !s.is_empty()).cloned().collect::<Vec<_>>();
            if alts.iter().any(|a| *a == argv || nonempty(a) == nonempty(&argv)) {
                acc.outcome(&format!("ok:{}", kind));
                acc.nontrivial();
                acc.state(&format!("{}|{:?}", line, argv));
            } else {
                acc.outcome(&format!("deviation:{}", kind));
                let dev = if argv.len() != alts[0].len() { "word-count" } else { "word-text" };
                acc.violation(&format!("{}:{}:{}", kind, dev, detail), c.repr(), json!(alts[0]), json!(argv));
            }
        }
        Ok(p) => {
            acc.outcome("deviation:structure");
            acc.violation(&format!("{}:structure:{}", kind, detail), c.repr(), json!(alts[0]), p.to_json());
        }
        Err(e) => {
            acc.outcome("deviation:plan-error");
            acc.violation(&format!("{}:plan-error:{}", kind, detail), c.repr(), json!(alts[0]), json!(e));
        }
    }
    acc.sample(c.repr());
}

fn brace_terms(max_len: usize, nest: usize, alts: usize, groups: usize) -> Vec<String> {
    let sigma = ["a", "b", "{", "}", ","];
    let mut out = Vec::new();
    for l in 3..=max_len {
        for s in explore::strings_of_len(&sigma, l) {
            if brace_reference(&s, nest, alts, groups).is_some() {
                out.push(s);
            }
        }
    }
    out
}

pub fn run(ctx: &Ctx) -> Value {
    let root = format!("{}/c12pop", ctx.scratch);
    // every population: subsets of POP where d/e implies d
    let mut pops: Vec<u32> = Vec::new();
    for mask in 0u32..(1 << POP.len()) {
        if mask & (1 << 6) != 0 && mask & (1 << 5) == 0 {
            continue;
        }
        if mask & (1 << 8) != 0 && mask & (1 << 7) == 0 {
            continue;
        }
        pops.push(mask);
        let dir = format!("{}/{}", root, mask);
        std::fs::create_dir_all(&dir).unwrap();
        for (i, e) in POP.iter().enumerate() {
            if mask & (1 << i) != 0 {
                if *e == "d" || *e == ".k" {
                    std::fs::create_dir_all(format!("{}/{}", dir, e)).unwrap();
                } else {
                    std::fs::write(format!("{}/{}", dir, e), b"x").unwrap();
                }
            }
        }
    }
    std::env::set_current_dir(format!("{}/0", root)).unwrap();
    std::env::set_var("PATH", format!("{}/nopath", ctx.scratch));
    std::env::set_var("HOME", "/HOMEMARK");
    let thorough = ctx.thorough();
    let (max_len, nest, nalts, ngroups) = if thorough { (10, 3, 4, 3) } else { (8, 3, 4, 3) };
    let terms = brace_terms(max_len, nest, nalts, ngroups);
    let mut cases: Vec<Case> = Vec::new();
    for t in &terms {
        for template in 0..TEMPLATES.len() {
            if !thorough && template >= 2 && t.len() > 6 {
                continue;
            }
            cases.push(Case::Brace { term: t.clone(), template });
        }
    }
    let short: Vec<&String> = terms.iter().filter(|t| t.len() <= if thorough { 6 } else { 5 }).collect();
    for a in &short {
        for b in &short {
            cases.push(Case::BracePair { a: (*a).clone(), b: (*b).clone() });
        }
    }
    let lim = if thorough { 5 } else { 3 };
    for m in -lim..=lim {
        for n in -lim..=lim {
            for s in [None, Some(0u32), Some(1), Some(2), Some(3), Some(7)] {
                for (pre, post) in [("", ""), ("p", "q"), ("p", ""), ("", "q")] {
                    for template in [0usize, 1] {
                        cases.push(Case::Range { m, n, s, pre, post, template });
                    }
                }
            }
        }
    }
    // bounds at the ends of the 32-bit range (short ranges only), steps up to the largest 32-bit value
    let edge = [i32::MAX - 1, i32::MAX, i32::MIN, i32::MIN + 1, 0, 1, -1];
    for m in edge {
        for n in edge {
            if (m as i64 - n as i64).abs() > 2 {
                continue;
            }
            for s in [None, Some(1u32), Some(2), Some(2147483647)] {
                for template in [0usize, 1] {
                    cases.push(Case::Range { m, n, s, pre: "", post: "", template });
                }
            }
        }
    }
    for m in [0, 1, -1, 5] {
        for n in [0, 1, -1, 5] {
            cases.push(Case::Range { m, n, s: Some(2147483647), pre: "p", post: "", template: 0 });
        }
    }
    for w in ["~", "~/x", "a~", "x/~", "'~'", "\"~\"", "\"~/x\"", "'~/x'", "~/", "~/a b"] {
        if w.contains(' ') {
            continue;
        }
        cases.push(Case::Tilde { word: w });
    }
    for pop in &pops {
        for pattern in 0..PATTERNS.len() {
            for template in 0..TEMPLATES.len() {
                if !thorough && template >= 2 && pattern >= 4 {
                    continue;
                }
                cases.push(Case::Glob { pop: *pop, pattern, template });
            }
        }
    }
    let n_brace = terms.len();
    let deadline = Instant::now() + Duration::from_secs(if thorough { 1200 } else { 45 });
    let opts = SweepOpts {
        workers: ctx.workers,
        case_limit: Duration::from_secs(3),
        deadline: Some(deadline),
        scratch: ctx.scratch.clone(),
        label: "c12".into(),
        samples_per_worker: 1,
    };
    let t = Instant::now();
    let scratch = ctx.scratch.clone();
    let cases2 = cases.clone();
    let r = explore::par_sweep(move || Box::new(cases2.clone().into_iter()), move |c: &Case, acc: &mut Acc| run_case(c, acc, &scratch), &opts);
    let mut total = SweepResult::default();
    let levels = vec![json!({"layer": format!("brace terms len<={} nest<={} alts<={} groups<={} ({} terms) x templates, term pairs, ranges -{}..{} x steps x surrounding text, tilde forms, {} populations x {} patterns",
                                              max_len, nest, nalts, ngroups, n_brace, lim, lim, pops.len(), PATTERNS.len()),
                             "cases": r.cases, "complete": !r.capped, "wall_s": t.elapsed().as_secs_f64()})];
    total.merge(r);
    let mut out = total.to_json();
    out["levels"] = json!(levels);
    out
}
