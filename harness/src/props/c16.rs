//! C16 — a line means the same through every entry point (pure layer).
//!
//! For EVERY string up to length L over a 14-symbol alphabet (no positional parameter, no newline):
//! the plans of the `-c` / prompt path  [plan(s) for s in line_to_cmds(L)]  must equal the plans of the
//! script / function / source path      [plan(s) for s in line_to_cmds(expand_args(L, []))]
//! (the script interpreter re-renders every line through parse_line -> tokens_to_line first).
use crate::explore::{self, Acc, SweepOpts, SweepResult};
use crate::plan;
use crate::Ctx;
use cicada::verif_hooks as vh;
use serde_json::{json, Value};
use std::time::{Duration, Instant};

pub const SIGMA: [&str; 14] = [" ", "a", "'", "\"", "\\", "|", ";", "&", ">", "$", "*", "(", ")", "{"];

fn view(sh: &mut vh::Shell, line: &str) -> Vec<String> {
    plan::plan_line(sh, line)
        .into_iter()
        .map(|r| match r {
            Ok(p) => {
                // quote tags are not observable by the programs: compare argv text, redirections, flags
                let cmds: Vec<String> = p
                    .commands
                    .iter()
                    .map(|c| format!("{:?}>{:?}<{:?}", c.tokens.iter().map(|t| &t.1).collect::<Vec<_>>(), c.redirects_to, c.redirect_from))
                    .collect();
                format!("CMD {:?} env={:?} bg={}", cmds, p.envs, p.background)
            }
            Err(e) => {
                if e.starts_with("OP ") {
                    e
                } else {
                    "ERR".to_string() // both paths must reject, the wording is not compared
                }
            }
        })
        .collect()
}

fn class_of(line: &str) -> String {
    // input class: which escape / quote constructs the line uses
    let mut v: Vec<&str> = Vec::new();
    let b: Vec<char> = line.chars().collect();
    for i in 0..b.len() {
        if b[i] == '\\' && i + 1 < b.len() {
            v.push(match b[i + 1] {
                ' ' => "esc-blank",
                ';' => "esc-semicolon",
                '|' => "esc-pipe",
                '&' => "esc-amp",
                '\'' | '"' => "esc-quote",
                '\\' => "esc-backslash",
                '(' | ')' => "esc-paren",
                '$' => "esc-dollar",
                _ => "esc-other",
            });
        }
    }
    if b.last() == Some(&'\\') {
        v.push("trailing-backslash");
    }
    if line.contains('\'') || line.contains('"') {
        v.push("quotes");
    }
    if line.contains('(') || line.contains(')') {
        v.push("parens");
    }
    v.sort();
    v.dedup();
    if v.is_empty() {
        "plain".to_string()
    } else {
        v.join("+")
    }
}

/// Every worker process plans in a directory of its own holding exactly the fixture files: a case whose command
/// substitution creates a file (`` `a>$` ``) must not change what `*` matches for another case - or for the second plan of
/// the same case (that race produced a false `plan:` difference in a thorough run).
fn private_cwd() {
    let base = std::env::var("C16_BASE").unwrap_or_default();
    let d = format!("{}/w{}", base, std::process::id());
    let here = std::env::current_dir().map(|c| c.to_string_lossy().to_string()).unwrap_or_default();
    if here != d {
        std::fs::create_dir_all(&d).unwrap();
        std::env::set_current_dir(&d).unwrap();
        std::env::set_var("HOME", &d);
    }
    if let Ok(rd) = std::fs::read_dir(&d) {
        for e in rd.flatten() {
            let name = e.file_name().to_string_lossy().to_string();
            if !["a", "aa", "a a"].contains(&name.as_str()) {
                let p = e.path();
                let _ = if p.is_dir() { std::fs::remove_dir_all(&p) } else { std::fs::remove_file(&p) };
            }
        }
    }
    for f in ["a", "aa", "a a"] {
        let p = format!("{}/{}", d, f);
        if !std::path::Path::new(&p).exists() {
            let _ = std::fs::write(&p, b"x");
        }
    }
}

fn run_case(s: &String, acc: &mut Acc) {
    acc.eval();
    private_cwd();
    let li = vh::parse_line(s);
    if !li.is_complete {
        // an incomplete line cannot be submitted at the prompt (the editor asks for more input)
        acc.outcome("skipped:incomplete-line");
        return;
    }
    let mut sh = vh::Shell::new();
    let direct = view(&mut sh, s);
    let rendered = vh::expand_args(s, &[]);
    private_cwd();
    let mut sh2 = vh::Shell::new();
    let script = view(&mut sh2, &rendered);
    if direct.iter().any(|x| x.starts_with("CMD")) {
        acc.nontrivial();
    }
    if direct == script {
        acc.outcome(if rendered == *s { "same:identical-text" } else { "same:re-rendered" });
        acc.state(&format!("{:?}", direct));
    } else {
        acc.outcome("differs");
        let kind = if direct.len() != script.len() { "segments" } else { "plan" };
        acc.violation(&format!("{}:{}", kind, class_of(s)), json!({"line": s, "re_rendered_for_script": rendered}), json!(direct), json!(script));
    }
    acc.sample(json!({"line": s, "re_rendered_for_script": rendered}));
}

pub fn run(ctx: &Ctx) -> Value {
    let cwd = format!("{}/c16cwd", ctx.scratch);
    std::fs::create_dir_all(&cwd).unwrap();
    for f in ["a", "aa", "a a"] {
        let _ = std::fs::write(format!("{}/{}", cwd, f), b"x");
    }
    std::env::set_current_dir(&cwd).unwrap();
    std::env::set_var("C16_BASE", &cwd);
    std::env::set_var("PATH", format!("{}/nopath", ctx.scratch));
    std::env::set_var("HOME", &cwd);
    std::env::set_var("a", "VA");
    let lmax = if ctx.thorough() { 6 } else { 4 };
    let deadline = Instant::now() + Duration::from_secs(if ctx.thorough() { 2400 } else { 40 });
    let mut total = SweepResult::default();
    let mut levels: Vec<Value> = Vec::new();
    for len in 1..=lmax {
        if Instant::now() > deadline {
            levels.push(json!({"layer": "pure", "len": len, "complete": false, "skipped": true}));
            total.capped = true;
            continue;
        }
        let t = Instant::now();
        let opts = SweepOpts {
            workers: ctx.workers,
            case_limit: Duration::from_secs(3),
            deadline: Some(deadline),
            scratch: ctx.scratch.clone(),
            label: format!("c16-{}", len),
            samples_per_worker: 1,
        };
        let r = explore::par_sweep(move || explore::strings_of_len(&SIGMA, len), run_case, &opts);
        levels.push(json!({"layer": "pure", "len": len, "cases": r.cases, "complete": !r.capped, "wall_s": t.elapsed().as_secs_f64()}));
        total.merge(r);
    }
    let mut out = total.to_json();
    out["levels"] = json!(levels);
    out["alphabet"] = json!(SIGMA.to_vec());
    out
}
