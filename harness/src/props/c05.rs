//! C05 — no input line / script text crashes or hangs the shell (in-process layers).
//!
//! Layer "pure":  every string up to length L over two 14-symbol alphabets through
//!                every pure stage (tokenizer, list splitter, re-rendering, redirection
//!                scan, command construction, positional pass, arithmetic classifier +
//!                calculator, script grammar, highlighter on every prefix, completion
//!                word-start on every prefix, path completion of the last word).
//! Layer "plan":  every string up to length L-1 through `CommandLine::from_line`
//!                (all seven expansion passes; command substitution really executed,
//!                with an empty PATH) under three variable environments.
//! Layer "script": every sequence of up to K script lines over a block-keyword alphabet
//!                through the grammar and the interpreter (`run_lines`).
//! Oracle: no panic, no abort, no confirmed hang. Nothing else.
use crate::explore::{self, guarded, Acc, SweepOpts, SweepResult};
use crate::plan;
use crate::Ctx;
use cicada::verif_hooks as vh;
use serde_json::{json, Value};
use std::time::{Duration, Instant};

pub const SIGMA_A: [&str; 14] = [" ", "a", "1", "é", "'", "\"", "`", "\\", "$", "(", ")", "|", "&", ">"];
pub const SIGMA_B: [&str; 14] = ["{", "}", ",", ".", "*", "~", "<", ";", "#", "=", "+", "^", "1", "a"];
/// the characters of A and B that interact across the two alphabets (`${a`, `"${`, `~{`, `$(`, `{$a,`): expansions x braces x quotes
pub const SIGMA_C: [&str; 14] = ["$", "{", "}", "a", "1", "`", "\"", "'", "\\", "(", ")", "*", "~", " "];
/// brace groups x escapes: a small alphabet so that longer words are reached (`{,}\\`, `{a,\}`, `{..\`, `"{,}`)
pub const SIGMA_D: [&str; 8] = ["{", "}", ",", "\\", "a", ".", "\"", "1"];

fn alpha_of(a: &str) -> Vec<&'static str> {
    match a {
        "A" => SIGMA_A.to_vec(),
        "B" => SIGMA_B.to_vec(),
        "C" => SIGMA_C.to_vec(),
        _ => SIGMA_D.to_vec(),
    }
}

fn note(acc: &mut Acc, stage: &str, case: &str, r: Result<(), String>) {
    if let Err(p) = r {
        let loc = p.split(' ').next().unwrap_or("?").to_string();
        acc.violation(
            &format!("panic@{}", loc),
            json!({"line": case, "stage": stage}),
            json!("no panic"),
            json!(p),
        );
        acc.outcome("panic");
    }
}

pub fn pure_stages(s: &String, acc: &mut Acc) {
    acc.eval();
    let mut tokens_opt = None;
    let mut complete = true;
    note(acc, "parse_line", s, guarded(|| {
        let li = vh::parse_line(s);
        complete = li.is_complete;
        tokens_opt = Some(li.tokens);
    }));
    let mut ncmds = 0;
    note(acc, "line_to_cmds", s, guarded(|| {
        ncmds = vh::line_to_cmds(s).len();
    }));
    if let Some(tokens) = &tokens_opt {
        note(acc, "tokens_to_line", s, guarded(|| {
            let l2 = vh::tokens_to_line(tokens);
            let _ = vh::parse_line(&l2);
        }));
        note(acc, "tokens_to_redirections", s, guarded(|| {
            let _ = vh::tokens_to_redirections(tokens);
        }));
        note(acc, "command_from_tokens", s, guarded(|| {
            let _ = vh::command_from_tokens(tokens.clone());
        }));
        acc.state(&format!("{:?}|{}|{}", tokens, complete, ncmds));
        if tokens.len() > 1 || ncmds > 1 {
            acc.nontrivial();
        }
        let class = format!(
            "tok{}{}{}",
            tokens.len().min(4),
            if complete { "c" } else { "i" },
            if tokens.iter().any(|t| !t.0.is_empty()) { "q" } else { "" }
        );
        acc.outcome(&class);
    }
    note(acc, "expand_args", s, guarded(|| {
        let _ = vh::expand_args(s, &["x".to_string(), "y z".to_string()]);
    }));
    note(acc, "calculator", s, guarded(|| {
        if vh::is_arithmetic(s) {
            let _ = vh::run_calculator(s);
        }
    }));
    note(acc, "script_grammar", s, guarded(|| {
        let _ = vh::script_shape(s);
    }));
    // Prefixes: the enumeration is prefix-closed (every shorter string is itself a case of an
    // earlier level), so "every prefix of every line" is covered by looking at the full string.
    let pre = s.as_str();
    note(acc, "highlight", pre, guarded(|| {
        let _ = vh::highlight(pre);
    }));
    let mut start = 0;
    note(acc, "escaped_word_start", pre, guarded(|| {
        start = vh::escaped_word_start(pre);
    }));
    note(acc, "complete_path", pre, guarded(|| {
        // exactly what lineread does: word = line[start..end]
        let word = &pre[start..];
        let _ = vh::complete_path(word, false);
        let _ = vh::complete_path(word, true);
    }));
    acc.sample(json!({"line": s}));
}

fn set_env_kind(kind: usize) {
    // variables named by the alphabet's letters/digits
    for name in ["a", "a1", "aa", "a11", "aa1", "a1a", "aaa"] {
        std::env::remove_var(name);
    }
    match kind {
        0 => {
            std::env::set_var("a", "v");
        }
        1 => {
            // references to itself and to each other (must not be rescanned)
            std::env::set_var("a", "$a");
            std::env::set_var("aa", "${a1}");
            std::env::set_var("a1", "$aa");
        }
        _ => {
            // regex-special text and a positional-looking value
            std::env::set_var("a", "$1.*+(b)[c]\\");
            std::env::set_var("a1", "{a,b}*");
        }
    }
}

pub fn plan_stage(case: &(usize, String), acc: &mut Acc) {
    let (kind, s) = case;
    acc.eval();
    set_env_kind(*kind);
    let mut sh = vh::Shell::new();
    if *kind == 1 {
        sh.set_env("s", "$s");
    }
    let r = guarded(|| {
        let r = plan::plan_line(&mut sh, s);
        let ok = r.iter().filter(|x| x.is_ok()).count();
        (r.len(), ok)
    });
    match r {
        Ok((n, ok)) => {
            acc.outcome(&format!("plan{}ok{}", n.min(3), ok.min(3)));
            if n > 0 {
                acc.nontrivial();
            }
            acc.state(&format!("{}|{}|{}", kind, n, ok));
        }
        Err(p) => note(acc, "plan", s, Err(p)),
    }
    acc.sample(json!({"line": s, "env": kind}));
}

impl explore::CaseRepr for (usize, String) {
    fn repr(&self) -> Value {
        json!({"line": self.1, "env_kind": self.0, "stage": "plan"})
    }
}

pub const SCRIPT_LINES: [&str; 12] = [
    "if a", "if a; then", "else if a", "else", "fi", "for a in a 1", "for a in a; do", "while a", "done", "a",
    "break", "continue",
];

pub fn script_stage(lines: &Vec<usize>, acc: &mut Acc) {
    acc.eval();
    let mut text = String::new();
    for i in lines {
        text.push_str(SCRIPT_LINES[*i]);
        text.push('\n');
    }
    let mut shape_ok = false;
    note(acc, "script_grammar", &text, guarded(|| {
        shape_ok = vh::script_shape(&text).is_ok();
    }));
    let mut sh = vh::Shell::new();
    note(acc, "run_lines", &text, guarded(|| {
        let args = vec!["s".to_string()];
        let _ = vh::run_lines(&mut sh, &text, &args, false);
    }));
    // without the trailing newline as well (EOI handling of the grammar)
    let t2 = text.trim_end().to_string();
    note(acc, "script_grammar", &t2, guarded(|| {
        let _ = vh::script_shape(&t2);
    }));
    acc.outcome(if shape_ok { "script-parsed" } else { "script-rejected" });
    if lines.len() > 1 {
        acc.nontrivial();
    }
    acc.state(&text);
    acc.sample(json!({ "script": text }));
}

impl explore::CaseRepr for Vec<usize> {
    fn repr(&self) -> Value {
        let text: Vec<&str> = self.iter().map(|i| SCRIPT_LINES[*i]).collect();
        json!({"script": text.join("\n") + "\n", "stage": "script"})
    }
}

fn seqs(n: usize, len: usize) -> Box<dyn Iterator<Item = Vec<usize>>> {
    let total = (n as u64).pow(len as u32);
    Box::new((0..total).map(move |mut x| {
        let mut v = vec![0usize; len];
        for p in (0..len).rev() {
            v[p] = (x % n as u64) as usize;
            x /= n as u64;
        }
        v
    }))
}

enum Level {
    Pure(&'static str, usize),
    Plan(&'static str, usize, Vec<usize>),
    Script(usize),
}

pub fn run(ctx: &Ctx) -> Value {
    // neutral environment: private cwd with a few files, empty PATH (nothing can be executed)
    let cwd = format!("{}/c05cwd", ctx.scratch);
    std::fs::create_dir_all(&cwd).unwrap();
    for f in ["a", "a1", ".h", "a b"] {
        let _ = std::fs::write(format!("{}/{}", cwd, f), b"x");
    }
    std::env::set_current_dir(&cwd).unwrap();
    std::env::set_var("PATH", format!("{}/nopath", ctx.scratch));
    std::env::set_var("HOME", &cwd);
    let budget = if ctx.thorough() { 2400 } else { 45 };
    let deadline = Instant::now() + Duration::from_secs(budget);
    // levels smallest first so the first counterexample is the shortest
    let mut plan: Vec<Level> = Vec::new();
    let all = vec![0usize, 1, 2];
    for len in 0..=4 {
        plan.push(Level::Pure("A", len));
        plan.push(Level::Pure("B", len));
        plan.push(Level::Pure("C", len));
        if len <= 3 {
            plan.push(Level::Plan("A", len, all.clone()));
            plan.push(Level::Plan("B", len, all.clone()));
            plan.push(Level::Plan("C", len, all.clone()));
        }
        if len >= 1 {
            plan.push(Level::Script(len));
        }
    }
    // alphabet D is small: its words go two characters further (escaped backslash after a brace group is 5 characters)
    for len in 1..=5 {
        plan.push(Level::Pure("D", len));
        plan.push(Level::Plan("D", len, vec![0]));
    }
    if ctx.thorough() {
        plan.push(Level::Plan("A", 4, all.clone()));
        plan.push(Level::Plan("B", 4, all.clone()));
        plan.push(Level::Plan("C", 4, all.clone()));
        plan.push(Level::Pure("C", 5));
        plan.push(Level::Pure("A", 5));
        plan.push(Level::Pure("B", 5));
        plan.push(Level::Script(5));
        plan.push(Level::Plan("A", 5, all.clone()));
        plan.push(Level::Plan("B", 5, all.clone()));
        plan.push(Level::Plan("D", 6, vec![0]));
        plan.push(Level::Pure("D", 6));
        plan.push(Level::Plan("D", 7, vec![0]));
        plan.push(Level::Pure("A", 6));
        plan.push(Level::Pure("B", 6));
    } else {
        // length 4 under the self-referential environment only (the one that used to hang)
        plan.push(Level::Plan("A", 4, vec![1]));
        plan.push(Level::Plan("B", 4, vec![1]));
        plan.push(Level::Plan("C", 4, vec![1]));
    }
    let mut total = SweepResult::default();
    let mut levels: Vec<Value> = Vec::new();
    let mk = |label: String| SweepOpts {
        workers: ctx.workers,
        case_limit: Duration::from_secs(2),
        deadline: Some(deadline),
        scratch: ctx.scratch.clone(),
        label,
        samples_per_worker: 1,
    };
    for lv in plan {
        let t = Instant::now();
        let desc = match &lv {
            Level::Pure(a, l) => json!({"layer":"pure","alphabet":a,"len":l}),
            Level::Plan(a, l, e) => json!({"layer":"plan","alphabet":a,"len":l,"envs":e}),
            Level::Script(l) => json!({"layer":"script","len":l}),
        };
        if Instant::now() > deadline {
            let mut d = desc;
            d["complete"] = json!(false);
            d["skipped"] = json!(true);
            levels.push(d);
            total.capped = true;
            continue;
        }
        let r = match lv {
            Level::Pure(a, len) => {
                let alpha = alpha_of(a);
                explore::par_sweep(move || explore::strings_of_len(&alpha, len), pure_stages, &mk(format!("pure{}{}", a, len)))
            }
            Level::Plan(a, len, envs) => {
                let alpha = alpha_of(a);
                explore::par_sweep(
                    move || {
                        let envs = envs.clone();
                        let alpha = alpha.clone();
                        Box::new(envs.into_iter().flat_map(move |k| explore::strings_of_len(&alpha, len).map(move |s| (k, s))))
                    },
                    plan_stage,
                    &mk(format!("plan{}{}", a, len)),
                )
            }
            Level::Script(len) => explore::par_sweep(move || seqs(SCRIPT_LINES.len(), len), script_stage, &mk(format!("script{}", len))),
        };
        let mut d = desc;
        d["cases"] = json!(r.cases);
        d["complete"] = json!(!r.capped);
        d["wall_s"] = json!(t.elapsed().as_secs_f64());
        levels.push(d);
        total.merge(r);
    }
    let mut out = total.to_json();
    out["levels"] = json!(levels);
    out["alphabets"] = json!({"A": SIGMA_A, "B": SIGMA_B, "C": SIGMA_C, "D": SIGMA_D, "script_lines": SCRIPT_LINES});
    out
}
