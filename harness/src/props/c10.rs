//! C10 — parameter expansion substitutes current values, once, and always terminates (plan level).
//!
//! Words = all sequences of 1..N segments over literal / $NAME / ${NAME} / $? / $$ segments (names that
//! are prefixes of one another, adjacent without separators), in unquoted, double-quoted and single-quoted
//! form, under nine variable environments (plain, blank-containing, empty, reference to another variable,
//! self-reference in both spellings, mutual reference, `$1`, regex-special text), installed as exported or
//! as shell-local variables. Oracle = reference single-pass expander; termination by the sweep watchdog.
use crate::explore::{self, Acc, CaseRepr, SweepOpts, SweepResult};
use crate::plan;
use crate::Ctx;
use cicada::verif_hooks as vh;
use serde_json::{json, Value};
use std::collections::BTreeMap;
use std::time::{Duration, Instant};

pub const SEGS: [&str; 10] = ["a", "-", "$A", "${A}", "$AB", "${AB}", "$U", "${U}", "$?", "$$"];
/// SEGS plus the characters that decide where an unbraced name ends or whether a `$` starts a reference at all
/// (the last one, a parenthesised text, is only used by the dollar-end step)
pub const EXT: [&str; 17] = ["a", "-", "$A", "${A}", "$AB", "${AB}", "$U", "${U}", "$?", "$$", "_", "1", ".", "é", "$", "%", "(v)"];
const EXT_N: usize = 16;
pub const ENVS: [(&str, &str, &str, &str); 13] = [
    // (label, A, AB, B)
    ("plain", "va", "vab", "vb"),
    ("blank", "x y", "vab", "vb"),
    ("empty", "", "vab", "vb"),
    ("ref-other", "$B", "vab", "vb"),
    ("self-braced", "${A}", "vab", "vb"),
    ("self", "$A", "vab", "vb"),
    ("mutual", "$B", "${AB}", "$A"),
    ("positional", "$1", "vab", "vb"),
    ("regex", "a.*+(b)[c]", "v\\1", "vb"),
    // values that later expansion passes could take for syntax: a brace group, a numeric range, command substitutions
    ("brace-group", "{a,b}", "x{c,d}y", "vb"),
    ("numeric-range", "{1..3}", "p{2..1}", "vb"),
    ("command-substitution", "$(nosuchcmd-x)", "`nosuchcmd-y`", "vb"),
    // a value that ends in `$`: text written after the reference (`(v)`, a name) must not join it
    ("dollar-end", "$", "x$", "vb"),
];
pub const STATUS: i32 = 7;

#[derive(Clone)]
pub struct Case {
    env: usize,
    exported: bool,
    /// the name was a shell-local variable first and was exported afterwards with its current value (the stale local copy is still stored)
    shadow: bool,
    quote: u8, // 0 unquoted, 1 double, 2 single
    segs: Vec<usize>,
}

impl Case {
    fn word(&self) -> String {
        self.segs.iter().map(|i| EXT[*i]).collect()
    }
    fn line(&self) -> String {
        let w = self.word();
        match self.quote {
            0 => format!("vh-argv {}", w),
            1 => format!("vh-argv \"{}\"", w),
            _ => format!("vh-argv '{}'", w),
        }
    }
}

impl CaseRepr for Case {
    fn repr(&self) -> Value {
        let e = ENVS[self.env];
        json!({"line": self.line(), "env": {"label": e.0, "A": e.1, "AB": e.2, "B": e.3, "exported": self.exported, "local_then_exported": self.shadow, "previous_status": STATUS}})
    }
}

/// Reference: one left-to-right pass, longest name, inserted values are not scanned again.
pub fn reference(word: &str, vars: &BTreeMap<&str, &str>, pid: i32) -> String {
    let b: Vec<char> = word.chars().collect();
    let mut out = String::new();
    let mut i = 0;
    let is_name = |c: char| c.is_ascii_alphanumeric() || c == '_';
    let lookup = |name: &str| -> String {
        if name == "?" {
            STATUS.to_string()
        } else if name == "$" {
            pid.to_string()
        } else {
            vars.get(name).map(|s| s.to_string()).unwrap_or_default()
        }
    };
    while i < b.len() {
        if b[i] == '$' && i + 1 < b.len() {
            if b[i + 1] == '{' {
                // ${NAME}
                let mut j = i + 2;
                while j < b.len() && b[j] != '}' {
                    j += 1;
                }
                if j < b.len() {
                    let name: String = b[i + 2..j].iter().collect();
                    // (a name starts with a letter or `_`: `${1}` is a positional parameter, not a variable)
                    let ok = !name.is_empty() && (name == "$" || name == "?" || (name.chars().all(is_name) && !name.chars().next().unwrap().is_ascii_digit()));
                    if ok {
                        out.push_str(&lookup(&name));
                        i = j + 1;
                        continue;
                    }
                }
            } else if b[i + 1] == '$' || b[i + 1] == '?' {
                out.push_str(&lookup(&b[i + 1].to_string()));
                i += 2;
                continue;
            } else if is_name(b[i + 1]) && !b[i + 1].is_ascii_digit() {
                let mut j = i + 1;
                while j < b.len() && is_name(b[j]) {
                    j += 1;
                }
                let name: String = b[i + 1..j].iter().collect();
                out.push_str(&lookup(&name));
                i = j;
                continue;
            }
        }
        out.push(b[i]);
        i += 1;
    }
    out
}

fn install(c: &Case, sh: &mut vh::Shell) -> BTreeMap<&'static str, &'static str> {
    let e = ENVS[c.env];
    let mut m = BTreeMap::new();
    for (name, val) in [("A", e.1), ("AB", e.2), ("B", e.3)] {
        std::env::remove_var(name);
        if c.shadow {
            sh.set_env(name, "STALE-LOCAL-VALUE");
            std::env::set_var(name, val);
        } else if c.exported {
            std::env::set_var(name, val);
        } else {
            sh.set_env(name, val);
        }
        m.insert(name, val);
    }
    std::env::remove_var("U");
    m
}

fn run_case(c: &Case, acc: &mut Acc) {
    acc.eval();
    let mut sh = vh::Shell::new();
    sh.previous_status = STATUS;
    let vars = install(c, &mut sh);
    let line = c.line();
    let word = c.word();
    let pid = unsafe { libc::getpid() };
    let expanded = reference(&word, &vars, pid);
    let r = plan::plan(&mut sh, &line);
    let qn = ["unquoted", "dq", "sq"][c.quote as usize];
    let envl = ENVS[c.env].0;
    let has_ref = c.segs.iter().any(|i| *i >= 2);
    if has_ref {
        acc.nontrivial();
    }
    let argv: Vec<String> = match &r {
        Ok(p) if p.commands.len() == 1 && !p.background && p.envs.is_empty() && p.commands[0].redirects_to.is_empty() && p.commands[0].redirect_from.is_none() => {
            p.argv(0)[1..].to_vec()
        }
        Ok(p) => {
            acc.outcome("deviation:structure");
            acc.violation(&format!("structure:{}:{}", qn, envl), c.repr(), json!({"one command, argv": [expanded]}), p.to_json());
            return;
        }
        Err(e) => {
            acc.outcome("deviation:plan-error");
            acc.violation(&format!("plan-error:{}:{}", qn, envl), c.repr(), json!({"argv": [expanded]}), json!(e));
            return;
        }
    };
    let ok = match c.quote {
        1 => argv == vec![expanded.clone()],
        2 => argv == vec![word.clone()],
        _ => {
            let split: Vec<String> = expanded.split_whitespace().map(|s| s.to_string()).collect();
            argv == vec![expanded.clone()] || argv == split || (expanded.is_empty() && argv.is_empty())
        }
    };
    if ok {
        acc.outcome(&format!("ok:{}:{}", qn, envl));
        acc.state(&format!("{}|{:?}", line, argv));
    } else {
        acc.outcome("deviation:argv");
        // input class: quote form, environment, and which reference forms the word uses
        let mut forms: Vec<&str> = Vec::new();
        if c.segs.iter().any(|i| [2usize, 4, 6].contains(i)) {
            forms.push("$NAME");
        }
        if c.segs.iter().any(|i| [3usize, 5, 7].contains(i)) {
            forms.push("${NAME}");
        }
        if c.segs.contains(&8) {
            forms.push("$?");
        }
        if c.segs.contains(&9) {
            forms.push("$$");
        }
        acc.violation(
            &format!("argv:{}:{}:{}:{}", qn, envl, if c.shadow { "local-then-exported" } else if c.exported { "exported" } else { "local" }, forms.join("+")),
            c.repr(),
            json!({"argv": if c.quote == 2 { vec![word.clone()] } else { vec![expanded.clone()] }, "note": "unquoted: this text as one argument or split at blanks"}),
            json!({ "argv": argv }),
        );
    }
    acc.sample(c.repr());
}

fn cases(nsegs: usize, envs: &'static [usize]) -> Box<dyn Iterator<Item = Case>> {
    let total = (SEGS.len() as u64).pow(nsegs as u32);
    Box::new((0..total).flat_map(move |mut x| {
        let mut segs = vec![0usize; nsegs];
        for p in (0..nsegs).rev() {
            segs[p] = (x % SEGS.len() as u64) as usize;
            x /= SEGS.len() as u64;
        }
        let mut v = Vec::new();
        for &env in envs {
            for exported in [true, false] {
                for quote in 0..3u8 {
                    v.push(Case { env, exported, shadow: false, quote, segs: segs.clone() });
                }
            }
        }
        v.into_iter()
    }))
}

/// words over EXT that use at least one of the additional segments
fn cases_ext(nsegs: usize, envs: &'static [usize]) -> Box<dyn Iterator<Item = Case>> {
    let total = (EXT_N as u64).pow(nsegs as u32);
    Box::new((0..total).flat_map(move |mut x| {
        let mut segs = vec![0usize; nsegs];
        for p in (0..nsegs).rev() {
            segs[p] = (x % EXT_N as u64) as usize;
            x /= EXT_N as u64;
        }
        let mut v = Vec::new();
        // (`$1` is a positional parameter: outside of scripts its expansion is not part of this property)
        // decided on the text, scanning as the expander does: in `$$$1` the first two characters are the pid, then `$1`
        let text: Vec<char> = segs.iter().map(|i| EXT[*i]).collect::<String>().chars().collect();
        let mut positional = false;
        let mut k = 0;
        while k + 1 < text.len() {
            if text[k] == '$' {
                if text[k + 1] == '$' || text[k + 1] == '?' {
                    k += 2;
                    continue;
                }
                if text[k + 1].is_ascii_digit() {
                    positional = true;
                    break;
                }
            }
            k += 1;
        }
        if segs.iter().any(|i| *i >= SEGS.len()) && !positional {
            for &env in envs {
                for exported in [true, false] {
                    // (single-quoted words are never expanded: covered by the base steps)
                    for quote in 0..2u8 {
                        v.push(Case { env, exported, shadow: false, quote, segs: segs.clone() });
                    }
                }
            }
        }
        v.into_iter()
    }))
}

/// words over {a $A ${A} $AB (v)} under the environment whose values end in `$`; double-quoted, and unquoted when
/// the word has no parenthesis
fn cases_dollar_end(nsegs: usize) -> Box<dyn Iterator<Item = Case>> {
    const D: [usize; 5] = [0, 2, 3, 4, 16];
    let total = (D.len() as u64).pow(nsegs as u32);
    Box::new((0..total).flat_map(move |mut x| {
        let mut segs = vec![0usize; nsegs];
        for p in (0..nsegs).rev() {
            segs[p] = D[(x % D.len() as u64) as usize];
            x /= D.len() as u64;
        }
        let mut v = Vec::new();
        for exported in [true, false] {
            v.push(Case { env: 12, exported, shadow: false, quote: 1, segs: segs.clone() });
            if !segs.contains(&16) {
                v.push(Case { env: 12, exported, shadow: false, quote: 0, segs: segs.clone() });
            }
        }
        v.into_iter()
    }))
}

static EXT_ENVS: [usize; 3] = [0, 1, 8];
static RESCAN_ENVS: [usize; 3] = [9, 10, 11];
static ALL_ENVS: [usize; 9] = [0, 1, 2, 3, 4, 5, 6, 7, 8];
static HOT_ENVS: [usize; 3] = [5, 6, 8];
static SELF_ENVS: [usize; 2] = [5, 6];

pub fn run(ctx: &Ctx) -> Value {
    let cwd = format!("{}/c10cwd", ctx.scratch);
    std::fs::create_dir_all(&cwd).unwrap();
    std::env::set_current_dir(&cwd).unwrap();
    std::env::set_var("PATH", format!("{}/nopath", ctx.scratch));
    std::env::set_var("HOME", &cwd);
    let budget = if ctx.thorough() { 1500 } else { 75 };
    let deadline = Instant::now() + Duration::from_secs(budget);
    let mk = |label: &str| SweepOpts {
        workers: ctx.workers,
        case_limit: Duration::from_secs(2),
        deadline: Some(deadline),
        scratch: ctx.scratch.clone(),
        label: label.to_string(),
        samples_per_worker: 1,
    };
    let mut total = SweepResult::default();
    let mut levels: Vec<Value> = Vec::new();
    let mut steps: Vec<(String, Box<dyn Fn() -> Box<dyn Iterator<Item = Case>>>)> = Vec::new();
    for n in 1..=3usize {
        steps.push((format!("words of {} segments x 9 envs x exported/local x 3 quote forms", n), Box::new(move || cases(n, &ALL_ENVS))));
    }
    // values that contain brace groups, ranges or command substitutions: inserted as they are, never expanded / run
    let nrescan = if ctx.thorough() { 3usize } else { 2 };
    steps.push((format!("words of 1..{} segments x {{brace-group, numeric-range, command-substitution}} values x exported/local x 3 quote forms", nrescan), Box::new(move || {
        Box::new((1..=nrescan).flat_map(|n| cases(n, &RESCAN_ENVS)))
    })));
    // name boundaries: a reference followed by `_`, a digit, `.`, a multi-byte character; a lone `$`; `$%`
    let next = if ctx.thorough() { 4 } else { 3 };
    steps.push((format!("words of 2..{} segments over the extended segment set (name-boundary characters) x 3 envs", next), Box::new(move || {
        Box::new((2..=next).flat_map(|n| cases_ext(n, &EXT_ENVS)))
    })));
    let ndollar = if ctx.thorough() { 4 } else { 3 };
    steps.push((format!("words of 1..{} segments over {{a $A ${{A}} $AB (v)}} under values that end in `$`", ndollar), Box::new(move || {
        Box::new((1..=ndollar).flat_map(cases_dollar_end))
    })));
    // a name that was a local variable first and was exported afterwards: the exported value is the current one
    let nshadow = if ctx.thorough() { 3 } else { 2 };
    steps.push((format!("words of 1..{} segments x 9 envs, names local then exported, 3 quote forms", nshadow), Box::new(move || {
        Box::new((1..=nshadow).flat_map(|n| cases(n, &ALL_ENVS)).filter(|c| c.exported).map(|mut c| {
            c.shadow = true;
            c
        }))
    })));
    if ctx.thorough() {
        steps.push(("words of 4 segments x 9 envs".into(), Box::new(|| cases(4, &ALL_ENVS))));
        steps.push(("words of 5 segments x self/mutual/regex envs".into(), Box::new(|| cases(5, &HOT_ENVS))));
    } else {
        // length 4 under the self- and mutual-reference environments, exported, double-quoted and unquoted
        steps.push(("words of 4 segments x self/mutual envs (exported; dq + unquoted)".into(), Box::new(|| {
            Box::new(cases(4, &SELF_ENVS).filter(|c| c.exported && c.quote < 2))
        })));
    }
    for (name, gen) in steps {
        if Instant::now() > deadline {
            levels.push(json!({"layer": name, "complete": false, "skipped": true}));
            total.capped = true;
            continue;
        }
        let t = Instant::now();
        let r = explore::par_sweep(gen, run_case, &mk("c10"));
        levels.push(json!({"layer": name, "cases": r.cases, "complete": !r.capped, "wall_s": t.elapsed().as_secs_f64()}));
        total.merge(r);
    }
    let mut out = total.to_json();
    out["levels"] = json!(levels);
    out["segments"] = json!(SEGS.to_vec());
    out
}
