//! C01 — quoted and escaped arguments reach the program verbatim (plan level).
//!
//! Every argument text up to length L over the metacharacter alphabet, in each quoting style the
//! statement covers (single quotes, double quotes, backslash-escaped), in six position templates,
//! is planned by the real `CommandLine::from_line` (tokenizer, list splitter, all expansion passes,
//! operator detection) in an adversarial environment (matching files, variables, aliases, HOME).
//! Oracle: the plan has the template's structure, no background flag, no redirections, no prefix
//! assignments, and the stage under test has argv = [vh-argv, ...texts...] byte-exact.
use crate::explore::{self, Acc, CaseRepr, SweepOpts, SweepResult};
use crate::plan;
use crate::Ctx;
use cicada::verif_hooks as vh;
use serde_json::{json, Value};
use std::time::{Duration, Instant};

pub const SIGMA: [&str; 34] = [
    "|", "&", ";", "<", ">", "(", ")", "$", "`", "\\", "\"", "'", "*", "?", "[", "]", "{", "}", ",", "~", "#", "!",
    "=", "%", "^", " ", "\t", "a", "é", "b", ".", "-", "1", "/",
];

#[derive(Clone, Copy, PartialEq, Eq, Debug)]
pub enum Style {
    Single,
    Double,
    Escaped,
}

impl Style {
    pub fn name(&self) -> &'static str {
        match self {
            Style::Single => "sq",
            Style::Double => "dq",
            Style::Escaped => "esc",
        }
    }
}

pub fn write_arg(text: &str, style: Style) -> Option<String> {
    match style {
        Style::Single => {
            if text.contains('\'') {
                None
            } else {
                Some(format!("'{}'", text))
            }
        }
        Style::Double => {
            // a double quote is written \" inside double quotes; `$`, backquote and backslash have no literal
            // spelling inside cicada's double quotes
            if text.chars().any(|c| "$`\\".contains(c)) {
                None
            } else {
                Some(format!("\"{}\"", text.replace('"', "\\\"")))
            }
        }
        Style::Escaped => {
            if text.is_empty() {
                return Some("''".to_string());
            }
            let mut s = String::new();
            for c in text.chars() {
                if !c.is_alphanumeric() {
                    s.push('\\');
                }
                s.push(c);
            }
            Some(s)
        }
    }
}

pub const TEMPLATES: [&str; 6] = ["only", "middle", "last", "before-pipe", "before-semicolon", "before-and"];

/// (line, number of list segments, index of the segment under test, stages in it, stage under test, expected argv)
pub fn render(template: &str, args: &[String], texts: &[String]) -> (String, usize, Vec<String>) {
    let joined = args.join(" ");
    let mut argv = vec!["vh-argv".to_string()];
    match template {
        "only" => {
            argv.extend(texts.iter().cloned());
            (format!("vh-argv {}", joined), 1, argv)
        }
        "middle" => {
            argv.push("a".into());
            argv.extend(texts.iter().cloned());
            argv.push("a".into());
            (format!("vh-argv a {} a", joined), 1, argv)
        }
        "last" => {
            argv.push("a".into());
            argv.extend(texts.iter().cloned());
            (format!("vh-argv a {}", joined), 1, argv)
        }
        "before-pipe" => {
            argv.extend(texts.iter().cloned());
            (format!("vh-argv {} | vh-argv2", joined), 2, argv)
        }
        "before-semicolon" => {
            argv.extend(texts.iter().cloned());
            (format!("vh-argv {} ; vh-argv2 b", joined), 1, argv)
        }
        _ => {
            argv.extend(texts.iter().cloned());
            (format!("vh-argv {} && vh-argv2 b", joined), 1, argv)
        }
    }
}

#[derive(Clone)]
pub struct Case {
    pub template: &'static str,
    pub texts: Vec<String>,
    pub styles: Vec<Style>,
}

impl CaseRepr for Case {
    fn repr(&self) -> Value {
        let args: Vec<String> = self.texts.iter().zip(self.styles.iter()).map(|(t, s)| write_arg(t, *s).unwrap_or_default()).collect();
        let (line, _, argv) = render(self.template, &args, &self.texts);
        json!({"line": line, "template": self.template, "texts": self.texts,
               "styles": self.styles.iter().map(|s| s.name()).collect::<Vec<_>>(), "expected_argv": argv})
    }
}

pub fn setup_env(scratch: &str) -> String {
    let cwd = format!("{}/c01cwd", scratch);
    std::fs::create_dir_all(format!("{}/d", cwd)).unwrap();
    for f in ["a", "b", "ab", ".h", "a b", "1", "d/e"] {
        let _ = std::fs::write(format!("{}/{}", cwd, f), b"x");
    }
    std::env::set_current_dir(&cwd).unwrap();
    std::env::set_var("PATH", format!("{}/nopath", scratch));
    std::env::set_var("HOME", "/HOMEMARK");
    std::env::set_var("a", "ENVA");
    std::env::set_var("b", "ENVB");
    std::env::set_var("é", "ENVE");
    std::env::set_var("1", "ENV1");
    cwd
}

pub fn fresh_shell() -> vh::Shell {
    let mut sh = vh::Shell::new();
    sh.add_alias("a", "ALIASA x");
    sh.add_alias("b", "ALIASB");
    sh.set_env("ab", "LOCALAB");
    sh
}

fn special_chars(texts: &[String]) -> String {
    let mut cs: Vec<char> = texts.iter().flat_map(|t| t.chars()).filter(|c| !c.is_alphanumeric()).collect();
    cs.sort();
    cs.dedup();
    cs.into_iter().map(|c| if c == ' ' { '␠' } else if c == '\t' { '␉' } else { c }).collect()
}

/// Compare the plan of `line` with the expectation; returns the deviation kind.
pub fn deviation(sh: &mut vh::Shell, line: &str, nstages: usize, expected_argv: &[String]) -> Option<(String, Value)> {
    let segs = plan::plan_line(sh, line);
    // the segment under test is the first one
    let first = match segs.first() {
        None => return Some(("no-command".into(), json!("line produced no command"))),
        Some(Err(e)) => return Some(("plan-error".into(), json!(e))),
        Some(Ok(p)) => p.clone(),
    };
    let expected_segs = if line.contains(" ; vh-argv2") || line.contains(" && vh-argv2") { 3 } else { 1 };
    if segs.len() != expected_segs {
        return Some(("list-split".into(), json!(format!("{} list segments, expected {}", segs.len(), expected_segs))));
    }
    if first.background {
        return Some(("background".into(), first.to_json()));
    }
    if !first.envs.is_empty() {
        return Some(("env-assign".into(), first.to_json()));
    }
    if first.commands.len() != nstages {
        return Some(("stages".into(), first.to_json()));
    }
    for c in &first.commands {
        if !c.redirects_to.is_empty() || c.redirect_from.is_some() {
            return Some(("redirect".into(), first.to_json()));
        }
    }
    let argv = first.argv(0);
    if argv.len() != expected_argv.len() {
        return Some((if argv.len() < expected_argv.len() { "argc-less" } else { "argc-more" }.into(), json!(argv)));
    }
    if argv != expected_argv {
        return Some(("argv-text".into(), json!(argv)));
    }
    if nstages == 2 && first.argv(1) != vec!["vh-argv2".to_string()] {
        return Some(("other-stage".into(), first.to_json()));
    }
    None
}

fn run_case(c: &Case, acc: &mut Acc) {
    acc.eval();
    let args: Vec<String> = c.texts.iter().zip(c.styles.iter()).map(|(t, s)| write_arg(t, *s).unwrap()).collect();
    let (line, nstages, argv) = render(c.template, &args, &c.texts);
    let mut sh = fresh_shell();
    let dev = deviation(&mut sh, &line, nstages, &argv);
    let styles: Vec<&str> = c.styles.iter().map(|s| s.name()).collect();
    if c.texts.iter().any(|t| t.chars().any(|ch| !ch.is_alphanumeric())) {
        acc.nontrivial();
    }
    match dev {
        None => {
            acc.outcome(&format!("verbatim:{}", styles.join("+")));
            acc.state(&line);
        }
        Some((kind, observed)) => {
            acc.outcome(&format!("deviation:{}", kind));
            let sig = format!("{}:{}:[{}]", kind, styles.join("+"), special_chars(&c.texts));
            acc.violation(&sig, c.repr(), json!({"argv": argv, "background": false, "redirections": 0}), observed);
        }
    }
    acc.sample(c.repr());
}

fn texts_of_len(len: usize) -> Box<dyn Iterator<Item = String>> {
    explore::strings_of_len(&SIGMA, len)
}

fn single_cases(len: usize, templates: &'static [&'static str]) -> Box<dyn Iterator<Item = Case>> {
    Box::new(texts_of_len(len).flat_map(move |t| {
        let mut v = Vec::new();
        for st in [Style::Single, Style::Double, Style::Escaped] {
            if write_arg(&t, st).is_none() {
                continue;
            }
            for tp in templates {
                v.push(Case { template: tp, texts: vec![t.clone()], styles: vec![st] });
            }
        }
        v.into_iter()
    }))
}

fn pair_cases() -> Box<dyn Iterator<Item = Case>> {
    // all ordered pairs of texts of length <= 1 in all style pairs as adjacent arguments
    let texts: Vec<String> = std::iter::once(String::new()).chain(SIGMA.iter().map(|s| s.to_string())).collect();
    let t2 = texts.clone();
    Box::new(texts.into_iter().flat_map(move |a| {
        let mut v = Vec::new();
        for b in &t2 {
            for sa in [Style::Single, Style::Double, Style::Escaped] {
                for sb in [Style::Single, Style::Double, Style::Escaped] {
                    if write_arg(&a, sa).is_none() || write_arg(b, sb).is_none() {
                        continue;
                    }
                    v.push(Case { template: "only", texts: vec![a.clone(), b.clone()], styles: vec![sa, sb] });
                }
            }
        }
        v.into_iter()
    }))
}

fn list_cases(maxn: usize) -> Box<dyn Iterator<Item = Case>> {
    // all lists of 0..maxn arguments over the four most operator-like texts, single-quoted and escaped
    let atoms = ["&", "|", ">", "a"];
    let mut out = Vec::new();
    for n in 0..=maxn {
        let total = 4usize.pow(n as u32);
        for x in 0..total {
            let mut y = x;
            let mut texts = Vec::new();
            for _ in 0..n {
                texts.push(atoms[y % 4].to_string());
                y /= 4;
            }
            for st in [Style::Single, Style::Escaped] {
                out.push(Case { template: "only", texts: texts.clone(), styles: vec![st; n] });
            }
        }
    }
    Box::new(out.into_iter())
}

static ALL_T: [&str; 6] = TEMPLATES;
static ONE_T: [&str; 1] = ["only"];

pub fn run(ctx: &Ctx) -> Value {
    setup_env(&ctx.scratch);
    let budget = if ctx.thorough() { 1500 } else { 40 };
    let deadline = Instant::now() + Duration::from_secs(budget);
    let mk = |label: &str| SweepOpts {
        workers: ctx.workers,
        case_limit: Duration::from_secs(2),
        deadline: Some(deadline),
        scratch: ctx.scratch.clone(),
        label: label.to_string(),
        samples_per_worker: 1,
    };
    let mut total = SweepResult::default();
    let mut levels: Vec<Value> = Vec::new();
    let mut steps: Vec<(String, Box<dyn Fn() -> Box<dyn Iterator<Item = Case>>>)> = Vec::new();
    for l in 0..=2usize {
        steps.push((format!("texts len {} x styles x 6 templates", l), Box::new(move || single_cases(l, &ALL_T))));
    }
    steps.push(("pairs of texts len<=1 x style pairs".into(), Box::new(pair_cases)));
    steps.push(("lists of 0..6 operator-like arguments".into(), Box::new(|| list_cases(6))));
    if ctx.thorough() {
        steps.push(("texts len 3 x styles x 6 templates".into(), Box::new(|| single_cases(3, &ALL_T))));
        steps.push(("texts len 4 x styles x template only".into(), Box::new(|| single_cases(4, &ONE_T))));
    } else {
        steps.push(("texts len 3 x styles x template only".into(), Box::new(|| single_cases(3, &ONE_T))));
    }
    for (name, gen) in steps {
        if Instant::now() > deadline {
            levels.push(json!({"layer": name, "complete": false, "skipped": true}));
            total.capped = true;
            continue;
        }
        let t = Instant::now();
        let r = explore::par_sweep(gen, run_case, &mk("c01"));
        levels.push(json!({"layer": name, "cases": r.cases, "complete": !r.capped, "wall_s": t.elapsed().as_secs_f64()}));
        total.merge(r);
    }
    let mut out = total.to_json();
    out["levels"] = json!(levels);
    out["alphabet"] = json!(SIGMA.to_vec());
    out
}
