//! C19 — arithmetic lines: precedence, associativity, integer/float modes, no crash.
//!
//! Layer "trees": ALL expression trees with k operators over a boundary operand set,
//!   rendered with minimal parentheses (exercises precedence/associativity), with full
//!   parentheses (differential partner) and in two spacings, evaluated by the real
//!   `run_calculator` and compared with an exact reference evaluator.
//! Layer "strings": EVERY string up to length L over the arithmetic alphabet (plus one
//!   letter): classification (`is_arithmetic`) against the statement's rule, value
//!   against the reference for the well-formed ones, crash freedom for all.
use crate::explore::{self, guarded, Acc, CaseRepr, SweepOpts, SweepResult};
use crate::Ctx;
use cicada::verif_hooks as vh;
use serde_json::{json, Value};
use std::time::{Duration, Instant};

#[derive(Clone, Debug)]
pub enum Tree {
    Num(String),
    Bin(Box<Tree>, char, Box<Tree>),
}

#[derive(Clone, Debug)]
enum Shape {
    Leaf,
    Node(Box<Shape>, Box<Shape>),
}

fn shapes(k: usize) -> Vec<Shape> {
    if k == 0 {
        return vec![Shape::Leaf];
    }
    let mut out = Vec::new();
    for l in 0..k {
        for a in shapes(l) {
            for b in shapes(k - 1 - l) {
                out.push(Shape::Node(Box::new(a.clone()), Box::new(b)));
            }
        }
    }
    out
}

const OPS: [char; 5] = ['+', '-', '*', '/', '^'];

fn instantiate(s: &Shape, ops: &[usize], vals: &[&str], oi: &mut usize, vi: &mut usize) -> Tree {
    match s {
        Shape::Leaf => {
            let t = Tree::Num(vals[*vi].to_string());
            *vi += 1;
            t
        }
        Shape::Node(a, b) => {
            let l = instantiate(a, ops, vals, oi, vi);
            let op = OPS[ops[*oi]];
            *oi += 1;
            let r = instantiate(b, ops, vals, oi, vi);
            Tree::Bin(Box::new(l), op, Box::new(r))
        }
    }
}

fn prec(op: char) -> u8 {
    match op {
        '+' | '-' => 1,
        '*' | '/' => 2,
        _ => 3,
    }
}

fn render_min(t: &Tree, sp: &str) -> String {
    match t {
        Tree::Num(s) => s.clone(),
        Tree::Bin(l, op, r) => {
            let p = prec(*op);
            let right_assoc = *op == '^';
            let ls = match &**l {
                Tree::Bin(_, lop, _) if prec(*lop) < p || (prec(*lop) == p && right_assoc) => {
                    format!("({})", render_min(l, sp))
                }
                _ => render_min(l, sp),
            };
            let rs = match &**r {
                Tree::Bin(_, rop, _) if prec(*rop) < p || (prec(*rop) == p && !right_assoc) => {
                    format!("({})", render_min(r, sp))
                }
                _ => render_min(r, sp),
            };
            format!("{}{}{}{}{}", ls, sp, op, sp, rs)
        }
    }
}

fn render_full(t: &Tree, sp: &str, top: bool) -> String {
    match t {
        Tree::Num(s) => s.clone(),
        Tree::Bin(l, op, r) => {
            let inner = format!("{}{}{}{}{}", render_full(l, sp, false), sp, op, sp, render_full(r, sp, false));
            if top {
                inner
            } else {
                format!("({})", inner)
            }
        }
    }
}

/// Reference: Some(value) when the statement defines it (every literal and intermediate
/// fits i64, no division by zero, no negative exponent), None = unspecified.
fn ref_int(t: &Tree) -> Option<i128> {
    let fits = |v: i128| v >= i64::MIN as i128 && v <= i64::MAX as i128;
    match t {
        Tree::Num(s) => {
            let v: i128 = s.parse().ok()?;
            if fits(v) {
                Some(v)
            } else {
                None
            }
        }
        Tree::Bin(l, op, r) => {
            let a = ref_int(l)?;
            let b = ref_int(r)?;
            let v = match op {
                '+' => a.checked_add(b)?,
                '-' => a.checked_sub(b)?,
                '*' => a.checked_mul(b)?,
                '/' => {
                    if b == 0 {
                        return None;
                    }
                    a / b // i128 division truncates toward zero
                }
                _ => {
                    if b < 0 {
                        return None;
                    }
                    // exact power with early exit once out of range
                    let mut acc: i128 = 1;
                    if a == 0 || a == 1 {
                        if b == 0 { 1 } else { a }
                    } else if a == -1 {
                        if b % 2 == 0 { 1 } else { -1 }
                    } else {
                        if b > 64 {
                            return None;
                        }
                        for _ in 0..b {
                            acc = acc.checked_mul(a)?;
                            if !fits(acc) {
                                return None;
                            }
                        }
                        acc
                    }
                }
            };
            if fits(v) {
                Some(v)
            } else {
                None
            }
        }
    }
}

fn ref_float(t: &Tree) -> Option<f64> {
    match t {
        Tree::Num(s) => s.parse::<f64>().ok(),
        Tree::Bin(l, op, r) => {
            let a = ref_float(l)?;
            let b = ref_float(r)?;
            Some(match op {
                '+' => a + b,
                '-' => a - b,
                '*' => a * b,
                '/' => a / b,
                _ => a.powf(b),
            })
        }
    }
}

fn has_dot(t: &Tree) -> bool {
    match t {
        Tree::Num(s) => s.contains('.'),
        Tree::Bin(l, _, r) => has_dot(l) || has_dot(r),
    }
}

fn expected(t: &Tree) -> Option<String> {
    if has_dot(t) {
        ref_float(t).map(|v| format!("{}", v))
    } else {
        ref_int(t).map(|v| format!("{}", v))
    }
}

fn check_line(acc: &mut Acc, line: &str, exp: &Option<String>, what: &str, classify: bool) {
    acc.transition(1);
    let r = guarded(|| vh::run_calculator(line));
    match r {
        Err(p) => {
            let loc = p.split(' ').next().unwrap_or("?").to_string();
            acc.violation(&format!("panic@{}", loc), json!({"line": line, "render": what}), json!("no panic"), json!(p));
            acc.outcome("panic");
        }
        Ok(res) => match (exp, res) {
            (Some(e), Ok(v)) => {
                if *e != v {
                    let kind = if line.contains('.') { "float" } else { "int" };
                    acc.violation(
                        &format!("wrong-value:{}:{}", kind, what),
                        json!({"line": line, "render": what}),
                        json!(e),
                        json!(v),
                    );
                    acc.outcome("wrong");
                } else {
                    acc.outcome("value-ok");
                }
            }
            (Some(e), Err(d)) => {
                acc.violation(&format!("diagnostic-for-defined:{}", what), json!({"line": line, "render": what}), json!(e), json!(format!("diagnostic: {}", d)));
                acc.outcome("wrong");
            }
            (None, Ok(_)) => acc.outcome("unspecified-value"),
            (None, Err(_)) => acc.outcome("unspecified-diagnostic"),
        },
    }
    if classify {
        let c = guarded(|| vh::is_arithmetic(line));
        match c {
            Ok(true) => {}
            Ok(false) => acc.violation("not-classified-arithmetic", json!({"line": line, "render": what}), json!(true), json!(false)),
            Err(p) => acc.violation("panic@is_arithmetic", json!({"line": line}), json!("no panic"), json!(p)),
        }
    }
}

#[derive(Clone)]
pub struct TreeCase {
    tree: Tree,
    classify: bool,
}

impl CaseRepr for TreeCase {
    fn repr(&self) -> Value {
        json!({"line": render_min(&self.tree, " "), "layer": "trees"})
    }
}

fn tree_case(c: &TreeCase, acc: &mut Acc) {
    acc.eval();
    let exp = expected(&c.tree);
    let m1 = render_min(&c.tree, " ");
    let m2 = render_min(&c.tree, "");
    let f1 = render_full(&c.tree, " ", true);
    let f2 = render_full(&c.tree, "", true);
    if exp.is_some() {
        acc.nontrivial();
    }
    acc.state(&format!("{}={:?}", m1, exp));
    check_line(acc, &m1, &exp, "minimal-spaced", c.classify);
    check_line(acc, &m2, &exp, "minimal-tight", c.classify);
    if f1 != m1 {
        check_line(acc, &f1, &exp, "full-spaced", false);
        check_line(acc, &f2, &exp, "full-tight", false);
    }
    acc.sample(json!({"line": m1, "expected": exp}));
}

fn trees(k: usize, vals: &'static [&'static str], classify: bool) -> Box<dyn Iterator<Item = TreeCase>> {
    let sh = shapes(k);
    let nv = vals.len() as u64;
    let per_shape: u64 = 5u64.pow(k as u32) * nv.pow(k as u32 + 1);
    let total = sh.len() as u64 * per_shape;
    Box::new((0..total).map(move |x| {
        let s = &sh[(x / per_shape) as usize];
        let mut y = x % per_shape;
        let mut ops = vec![0usize; k];
        for i in 0..k {
            ops[i] = (y % 5) as usize;
            y /= 5;
        }
        let mut vs: Vec<&str> = Vec::with_capacity(k + 1);
        for _ in 0..=k {
            vs.push(vals[(y % nv) as usize]);
            y /= nv;
        }
        let (mut oi, mut vi) = (0, 0);
        TreeCase { tree: instantiate(s, &ops, &vs, &mut oi, &mut vi), classify }
    }))
}

// ---------------------------------------------------------------- string layer

pub const SIGMA: [&str; 13] = ["0", "1", "9", "+", "-", "*", "/", "^", "(", ")", ".", " ", "a"];

/// Strict reference parser (unsigned literals): Some(tree) iff the string is a
/// well-formed arithmetic expression with at least one operator.
fn ref_parse(s: &str) -> Option<Tree> {
    let b: Vec<char> = s.chars().collect();
    let mut pos = 0usize;
    fn ws(b: &[char], pos: &mut usize) {
        while *pos < b.len() && b[*pos] == ' ' {
            *pos += 1;
        }
    }
    fn term(b: &[char], pos: &mut usize) -> Option<Tree> {
        ws(b, pos);
        if *pos < b.len() && b[*pos] == '(' {
            *pos += 1;
            let t = expr(b, pos, 1)?;
            ws(b, pos);
            if *pos < b.len() && b[*pos] == ')' {
                *pos += 1;
                return Some(t);
            }
            return None;
        }
        let st = *pos;
        while *pos < b.len() && b[*pos].is_ascii_digit() {
            *pos += 1;
        }
        if *pos == st {
            return None;
        }
        if *pos < b.len() && b[*pos] == '.' {
            *pos += 1;
            while *pos < b.len() && b[*pos].is_ascii_digit() {
                *pos += 1;
            }
        }
        Some(Tree::Num(b[st..*pos].iter().collect()))
    }
    // precedence climbing
    fn expr(b: &[char], pos: &mut usize, min_prec: u8) -> Option<Tree> {
        let mut lhs = term(b, pos)?;
        loop {
            ws(b, pos);
            if *pos >= b.len() {
                break;
            }
            let op = b[*pos];
            if !"+-*/^".contains(op) {
                break;
            }
            let p = prec(op);
            if p < min_prec {
                break;
            }
            *pos += 1;
            let next_min = if op == '^' { p } else { p + 1 };
            let rhs = expr(b, pos, next_min)?;
            lhs = Tree::Bin(Box::new(lhs), op, Box::new(rhs));
        }
        Some(lhs)
    }
    let t = expr(&b, &mut pos, 1)?;
    ws(&b, &mut pos);
    if pos != b.len() {
        return None;
    }
    match t {
        Tree::Num(_) => None,
        _ => Some(t),
    }
}

fn has_paren_only_wrap(_t: &Tree) -> bool {
    false
}

fn string_case(s: &String, acc: &mut Acc) {
    acc.eval();
    let _ = has_paren_only_wrap;
    let only_arith_chars = s.chars().all(|c| " 0123456789.()+-*/^".contains(c));
    let has_digit = s.chars().any(|c| c.is_ascii_digit());
    let has_op = s.chars().any(|c| "+-*/^".contains(c));
    let cls = guarded(|| vh::is_arithmetic(s));
    let is_ar = match cls {
        Ok(v) => v,
        Err(p) => {
            acc.violation("panic@is_arithmetic", json!({"line": s, "layer":"strings"}), json!("no panic"), json!(p));
            return;
        }
    };
    // soundness of the classification: only lines made of arithmetic characters, with a
    // digit and an operator, may be taken as arithmetic
    if is_ar && !(only_arith_chars && has_digit && has_op) {
        acc.violation("classified-arithmetic-wrongly", json!({"line": s, "layer":"strings"}), json!(false), json!(true));
    }
    let wf = if only_arith_chars { ref_parse(s) } else { None };
    match &wf {
        Some(t) => {
            acc.nontrivial();
            if !is_ar {
                acc.violation("not-classified-arithmetic", json!({"line": s, "layer":"strings"}), json!(true), json!(false));
            }
            let exp = expected(t);
            acc.state(&format!("{}={:?}", s, exp));
            check_line(acc, s, &exp, "string", false);
        }
        None => {
            // malformed or outside the statement (signed literals): crash freedom only
            if is_ar {
                check_line(acc, s, &None, "string-unspecified", false);
                acc.outcome("arith-unspecified");
            } else {
                acc.outcome("not-arithmetic");
            }
        }
    }
    acc.sample(json!({"line": s, "well_formed": wf.is_some()}));
}

static V_ALL: [&str; 14] = ["0", "1", "2", "3", "7", "2147483648", "9223372036854775807", "62", "63", "64", "70", "1.5", "0.25", "2."];
static V_SIX: [&str; 6] = ["0", "2", "3", "63", "9223372036854775807", "1.5"];
static V_TEN: [&str; 10] = ["0", "1", "2", "3", "7", "63", "64", "9223372036854775807", "1.5", "0.25"];
static V_FOUR: [&str; 4] = ["0", "2", "3", "1.5"];

pub fn run(ctx: &Ctx) -> Value {
    let budget = if ctx.thorough() { 1500 } else { 36 };
    let deadline = Instant::now() + Duration::from_secs(budget);
    let mk = |label: &str| SweepOpts {
        workers: ctx.workers,
        case_limit: Duration::from_secs(2),
        deadline: Some(deadline),
        scratch: ctx.scratch.clone(),
        label: label.to_string(),
        samples_per_worker: 1,
    };
    let mut total = SweepResult::default();
    let mut levels: Vec<Value> = Vec::new();
    let mut plan: Vec<(String, Box<dyn Fn() -> Box<dyn Iterator<Item = TreeCase>>>)> = Vec::new();
    plan.push(("trees k=1 |V|=14".into(), Box::new(|| trees(1, &V_ALL, true))));
    plan.push(("trees k=2 |V|=14".into(), Box::new(|| trees(2, &V_ALL, true))));
    if ctx.thorough() {
        plan.push(("trees k=3 |V|=10".into(), Box::new(|| trees(3, &V_TEN, false))));
        plan.push(("trees k=4 |V|=4".into(), Box::new(|| trees(4, &V_FOUR, false))));
    } else {
        plan.push(("trees k=3 |V|=6".into(), Box::new(|| trees(3, &V_SIX, false))));
    }
    let lmax = if ctx.thorough() { 7 } else { 5 };
    let mut string_levels: Vec<usize> = (1..=lmax).collect();
    // strings first up to 4 (cheap, shortest counterexamples), then trees, then longer strings
    let mut do_strings = |total: &mut SweepResult, levels: &mut Vec<Value>, len: usize| {
        if Instant::now() > deadline {
            levels.push(json!({"layer":"strings","len":len,"complete":false,"skipped":true}));
            total.capped = true;
            return;
        }
        let r = explore::par_sweep(move || explore::strings_of_len(&SIGMA, len), string_case, &mk(&format!("str{}", len)));
        levels.push(json!({"layer":"strings","len":len,"cases":r.cases,"complete":!r.capped}));
        total.merge(r);
    };
    while let Some(&l) = string_levels.first() {
        if l > 4 {
            break;
        }
        do_strings(&mut total, &mut levels, l);
        string_levels.remove(0);
    }
    for (name, gen) in plan {
        if Instant::now() > deadline {
            levels.push(json!({"layer":name,"complete":false,"skipped":true}));
            total.capped = true;
            continue;
        }
        let r = explore::par_sweep(gen, tree_case, &mk("trees"));
        levels.push(json!({"layer":name,"cases":r.cases,"complete":!r.capped}));
        total.merge(r);
    }
    for l in string_levels {
        do_strings(&mut total, &mut levels, l);
    }
    let mut out = total.to_json();
    out["levels"] = json!(levels);
    out["alphabets"] = json!({"strings": SIGMA, "operands": V_ALL});
    out
}
