//! C06 — the job table under every order of child events.
//!
//! The real `Shell::insert_job`, `jobc::wait_fg_job`, `jobc::try_wait_bg_jobs`,
//! `signals::handle_sigchld`, `jobc::mark_job_as_running` run unmodified; only `waitpid` is
//! answered by a model of the kernel's child-notification semantics (DESIGN.md appendix B).
//! Explicit-state search (BFS with canonical-state dedup) over prompt-level states; inside every
//! blocking wait and every drain loop each call of the hooked `waitpid` is a choice point of a
//! stateless choice-prefix DFS (which pending notification is delivered / which child changes
//! state first). Every state is reached by replaying its history from a fresh shell; replay
//! divergence is a hard error.
use crate::Ctx;
use cicada::verif_hooks as vh;
use nix::errno::Errno;
use nix::sys::signal::Signal;
use nix::sys::wait::WaitStatus as WS;
use nix::unistd::Pid;
use serde_json::{json, Value};
use std::cell::RefCell;
use std::collections::{BTreeMap, BTreeSet, HashSet, VecDeque};
use std::rc::Rc;
use std::time::{Duration, Instant};

const PID_BASE: i32 = 5_000_000; // above pid_max (4194304): never a real process

#[derive(Clone, Copy, PartialEq, Eq, Debug, Hash, PartialOrd, Ord)]
enum St {
    R,
    T,
    Z,
    X,
}

#[derive(Clone, Copy, PartialEq, Eq, Debug, Hash, PartialOrd, Ord)]
enum Notif {
    Stopped,
    Continued,
    Exited(i32),
    Signaled(i32),
}

#[derive(Clone, Copy, PartialEq, Eq, Debug, Hash, PartialOrd, Ord)]
enum Told {
    Running,
    Stopped,
    Dead(i32),
}

#[derive(Clone, Copy, PartialEq, Eq, Debug, Hash, PartialOrd, Ord)]
enum Ev {
    Stop,
    Cont,
    Exit,
    Kill,
}

#[derive(Clone, Debug)]
struct Child {
    pid: i32,
    gid: i32,
    idx_in_job: usize,
    st: St,
    pend: Option<Notif>,
    told: Told,
}

fn permutations(n: usize) -> Vec<Vec<usize>> {
    // identity first, so that the default choice 0 is the ascending-id order
    fn rec(cur: &mut Vec<usize>, used: &mut Vec<bool>, n: usize, out: &mut Vec<Vec<usize>>) {
        if cur.len() == n {
            out.push(cur.clone());
            return;
        }
        for i in 0..n {
            if !used[i] {
                used[i] = true;
                cur.push(i);
                rec(cur, used, n, out);
                cur.pop();
                used[i] = false;
            }
        }
    }
    let mut out = Vec::new();
    rec(&mut Vec::new(), &mut vec![false; n], n, &mut out);
    out
}

#[derive(Clone, Debug, PartialEq, Eq, Hash, PartialOrd, Ord)]
enum Action {
    LaunchFg(usize),
    LaunchBg(usize),
    Event(i32, Ev),
    Observe,
    EmptyLine,
    Fg(i32),
    Bg(i32),
}

#[derive(Clone, Debug)]
struct Step {
    action: Action,
    choices: Vec<usize>,
}

struct WaitCtx {
    pids: Vec<i32>,
    calls: u32,
}

struct Inner {
    children: Vec<Child>,
    events_left: u32,
    deviations_left: u32,
    prefix: Vec<usize>,
    pos: usize,
    trace: Vec<(usize, usize)>, // (options, chosen)
    wait: Option<WaitCtx>,
    violations: Vec<(String, String)>,
    delivered_log: Vec<String>,
    forced: u32,
    step_log_start: usize,
    visited: Rc<RefCell<HashSet<(u64, u64)>>>,
    pruned: bool,
}

impl Inner {
    /// Sound pruning inside one macro step: the real code only sees the delivered notifications,
    /// so two executions with the same kernel state and the same delivered sequence (within this
    /// step) have the same future. Returns true if this point was already explored.
    fn seen_before(&mut self, block: bool) -> bool {
        if self.pos < self.prefix.len() {
            return false; // replaying an explored prefix
        }
        let mut s = String::new();
        for c in &self.children {
            s.push_str(&format!("{}:{:?}:{:?}:{:?};", c.pid, c.st, c.pend, c.told));
        }
        s.push_str(&format!("E{}D{}B{}|", self.events_left, self.deviations_left, block));
        for d in &self.delivered_log[self.step_log_start..] {
            s.push_str(d);
            s.push(',');
        }
        let key = hash2(&s);
        !self.visited.borrow_mut().insert(key)
    }

    fn choose(&mut self, n: usize) -> usize {
        if n <= 1 {
            return 0;
        }
        let c = if self.pos < self.prefix.len() { self.prefix[self.pos] } else { 0 };
        if c >= n {
            // divergence while replaying a prefix: hard error
            panic!("REPLAY-DIVERGENCE: choice {} out of {} at point {}", c, n, self.pos);
        }
        self.pos += 1;
        self.trace.push((n, c));
        c
    }

    fn child_mut(&mut self, pid: i32) -> &mut Child {
        self.children.iter_mut().find(|c| c.pid == pid).expect("child")
    }

    fn applicable(&self) -> Vec<(i32, Ev)> {
        let mut v = Vec::new();
        for c in &self.children {
            match c.st {
                St::R => {
                    v.push((c.pid, Ev::Stop));
                    v.push((c.pid, Ev::Exit));
                    v.push((c.pid, Ev::Kill));
                }
                St::T => {
                    v.push((c.pid, Ev::Cont));
                    v.push((c.pid, Ev::Kill));
                }
                _ => {}
            }
        }
        v
    }

    fn apply_event(&mut self, pid: i32, ev: Ev) {
        let c = self.child_mut(pid);
        match ev {
            Ev::Stop => {
                assert!(c.st == St::R);
                c.st = St::T;
                c.pend = Some(Notif::Stopped);
            }
            Ev::Cont => {
                assert!(c.st == St::T);
                c.st = St::R;
                c.pend = Some(Notif::Continued);
            }
            Ev::Exit => {
                assert!(c.st == St::R);
                c.st = St::Z;
                c.pend = Some(Notif::Exited(1 + c.idx_in_job as i32));
            }
            Ev::Kill => {
                assert!(c.st == St::R || c.st == St::T);
                c.st = St::Z;
                c.pend = Some(Notif::Signaled(9));
            }
        }
    }

    /// `killpg(gid, SIGCONT)`
    fn sigcont_group(&mut self, gid: i32) {
        for c in self.children.iter_mut() {
            if c.gid == gid && c.st == St::T {
                c.st = St::R;
                c.pend = Some(Notif::Continued);
            }
            // the shell itself resumed the group: it knows the members are running again
            if c.gid == gid && c.told == Told::Stopped {
                c.told = Told::Running;
            }
        }
    }

    fn deliver(&mut self, pid: i32) -> WS {
        let c = self.child_mut(pid);
        let n = c.pend.take().expect("pending");
        let p = Pid::from_raw(pid);
        let ws = match n {
            Notif::Stopped => {
                c.told = Told::Stopped;
                WS::Stopped(p, Signal::SIGTSTP)
            }
            Notif::Continued => {
                c.told = Told::Running;
                WS::Continued(p)
            }
            Notif::Exited(code) => {
                c.told = Told::Dead(code);
                c.st = St::X;
                WS::Exited(p, code)
            }
            Notif::Signaled(s) => {
                c.told = Told::Dead(128 + s);
                c.st = St::X;
                WS::Signaled(p, Signal::try_from(s).unwrap(), false)
            }
        };
        self.delivered_log.push(format!("{}:{:?}", pid - PID_BASE, n));
        ws
    }

    fn wait_condition_holds(&self, pids: &[i32]) -> bool {
        pids.iter().all(|p| match self.children.iter().find(|c| c.pid == *p) {
            Some(c) => matches!(c.told, Told::Dead(_) | Told::Stopped),
            None => true, // reaped long ago and forgotten by the model: dead
        })
    }

    fn waitpid(&mut self, _pid: i32, block: bool) -> nix::Result<WS> {
        if block {
            if let Some(w) = &mut self.wait {
                w.calls += 1;
                let pids = w.pids.clone();
                if self.wait_condition_holds(&pids) {
                    self.violations.push((
                        "wait-late-return".to_string(),
                        format!("blocking waitpid although every process of the waited job is reported dead or stopped (delivered so far: {:?})", self.delivered_log),
                    ));
                    // let the execution run to completion: report ECHILD-like end
                    return Err(Errno::ECHILD);
                }
            }
        }
        loop {
            if self.pruned {
                return Err(Errno::ECHILD);
            }
            let mut pending: Vec<i32> = self.children.iter().filter(|c| c.pend.is_some()).map(|c| c.pid).collect();
            pending.sort();
            let unreaped = self.children.iter().any(|c| c.st != St::X);
            if !unreaped {
                return Err(Errno::ECHILD);
            }
            let events: Vec<(i32, Ev)> = if block {
                if self.events_left > 0 { self.applicable() } else { Vec::new() }
            } else if self.deviations_left > 0 && self.events_left > 0 {
                self.applicable()
            } else {
                Vec::new()
            };
            if block {
                let n = pending.len() + events.len();
                if n == 0 {
                    // nothing pending, no budget: force the remaining events so that the run completes
                    let live: Vec<(i32, Ev)> = self.applicable().into_iter().filter(|(_, e)| *e == Ev::Kill).collect();
                    // prefer members of the waited job, lowest pid first
                    let wait_pids: Vec<i32> = self.wait.as_ref().map(|w| w.pids.clone()).unwrap_or_default();
                    let mut cand: Vec<i32> = live.iter().map(|(p, _)| *p).filter(|p| wait_pids.contains(p)).collect();
                    if cand.is_empty() {
                        cand = live.iter().map(|(p, _)| *p).collect();
                    }
                    cand.sort();
                    match cand.first() {
                        Some(p) => {
                            self.apply_event(*p, Ev::Kill);
                            self.forced += 1;
                            continue;
                        }
                        None => {
                            self.violations.push(("deadlock".into(), "blocking waitpid with no child that can ever change state".into()));
                            return Err(Errno::ECHILD);
                        }
                    }
                }
                if n > 1 && self.seen_before(true) {
                    self.pruned = true;
                    return Err(Errno::ECHILD);
                }
                let k = self.choose(n);
                if k < pending.len() {
                    return Ok(self.deliver(pending[k]));
                }
                let (p, e) = events[k - pending.len()];
                self.events_left -= 1;
                self.apply_event(p, e);
                continue;
            } else {
                // WNOHANG: with something pending the kernel reports one of them
                let n = pending.len().max(1) + events.len();
                if n > 1 && self.seen_before(false) {
                    self.pruned = true;
                    return Err(Errno::ECHILD);
                }
                let k = self.choose(n);
                if pending.is_empty() {
                    if k == 0 {
                        return Ok(WS::StillAlive);
                    }
                    let (p, e) = events[k - 1];
                    self.events_left -= 1;
                    self.deviations_left -= 1;
                    self.apply_event(p, e);
                    continue;
                }
                if k < pending.len() {
                    return Ok(self.deliver(pending[k]));
                }
                let (p, e) = events[k - pending.len()];
                self.events_left -= 1;
                self.deviations_left -= 1;
                self.apply_event(p, e);
                continue;
            }
        }
    }
}

#[derive(Clone)]
struct Snapshot {
    jobs: Vec<vh::Job>,
    maps: (Vec<(i32, i32)>, Vec<i32>, Vec<i32>, Vec<(i32, i32)>),
    children: Vec<Child>,
    events_left: u32,
    deviations_left: u32,
    launches: usize,
    procs_launched: usize,
    max_procs: usize,
}

struct World {
    sh: vh::Shell,
    inner: Rc<RefCell<Inner>>,
    launches: usize,
    procs_launched: usize,
    max_procs: usize,
    handler_enabled: bool,
}

fn pid_block(launch_idx: usize, k: usize) -> Vec<i32> {
    // deliberately NOT increasing inside a job
    let base = PID_BASE + (launch_idx as i32) * 10;
    match k {
        1 => vec![base + 1],
        2 => vec![base + 2, base + 1],
        _ => vec![base + 3, base + 1, base + 2],
    }
}

impl World {
    fn new(events: u32, deviations: u32, handler_enabled: bool) -> World {
        vh::maps_reset();
        let inner = Rc::new(RefCell::new(Inner {
            children: Vec::new(),
            events_left: events,
            deviations_left: deviations,
            prefix: Vec::new(),
            pos: 0,
            trace: Vec::new(),
            wait: None,
            violations: Vec::new(),
            delivered_log: Vec::new(),
            forced: 0,
            step_log_start: 0,
            visited: Rc::new(RefCell::new(HashSet::new())),
            pruned: false,
        }));
        let i2 = inner.clone();
        vh::install_fake_waitpid(Some(Box::new(move |pid, block| i2.borrow_mut().waitpid(pid, block))));
        // The shell keeps its jobs in a hash map and `try_wait_bg_jobs` visits them in the map's arbitrary order:
        // the explorer owns that order. Only jobs that have a parked event waiting can make the order observable;
        // if two or more of them do, every permutation of those jobs is a choice.
        let i3 = inner.clone();
        vh::install_job_order(Some(Box::new(move |jobs: &mut Vec<(i32, vh::Job)>| {
            jobs.sort_by_key(|j| j.0);
            let (reap, stopped, cont, killed) = vh::maps_snapshot();
            let parked: HashSet<i32> = reap.iter().map(|x| x.0).chain(stopped.iter().copied()).chain(cont.iter().copied()).chain(killed.iter().map(|x| x.0)).collect();
            let hot: Vec<usize> = (0..jobs.len()).filter(|i| jobs[*i].1.pids.iter().any(|p| parked.contains(p))).collect();
            if hot.len() < 2 {
                return;
            }
            let perms = permutations(hot.len());
            let k = {
                let mut inner = i3.borrow_mut();
                let k = inner.choose(perms.len());
                // (part of the pruning key: executions that differ in this choice are different executions)
                inner.delivered_log.push(format!("job-order-{}", k));
                k
            };
            let picked: Vec<(i32, vh::Job)> = perms[k].iter().map(|i| jobs[hot[*i]].clone()).collect();
            for (slot, job) in hot.iter().zip(picked.into_iter()) {
                jobs[*slot] = job;
            }
        })));
        let mut sh = vh::Shell::new();
        sh.has_terminal = false;
        World { sh, inner, launches: 0, procs_launched: 0, max_procs: 6, handler_enabled }
    }

    fn snapshot(&self) -> Snapshot {
        let inner = self.inner.borrow();
        let mut jobs: Vec<vh::Job> = self.sh.jobs.values().cloned().collect();
        jobs.sort_by_key(|j| j.id);
        Snapshot {
            jobs,
            maps: vh::maps_snapshot(),
            children: inner.children.clone(),
            events_left: inner.events_left,
            deviations_left: inner.deviations_left,
            launches: self.launches,
            procs_launched: self.procs_launched,
            max_procs: self.max_procs,
        }
    }

    fn from_snapshot(s: &Snapshot, handler_enabled: bool) -> World {
        let w = World::new(s.events_left, s.deviations_left, handler_enabled);
        let mut w = w;
        for j in &s.jobs {
            w.sh.jobs.insert(j.id, j.clone());
        }
        vh::maps_restore(&s.maps);
        w.inner.borrow_mut().children = s.children.clone();
        w.launches = s.launches;
        w.procs_launched = s.procs_launched;
        w.max_procs = s.max_procs;
        w
    }

    fn live_jobs(&self) -> usize {
        let inner = self.inner.borrow();
        let mut g: BTreeSet<i32> = BTreeSet::new();
        for c in &inner.children {
            if c.st == St::R || c.st == St::T {
                g.insert(c.gid);
            }
        }
        g.len()
    }

    fn enabled(&self, max_launches: usize) -> Vec<Action> {
        let mut v = Vec::new();
        if self.launches < max_launches && self.live_jobs() < 3 && self.sh.jobs.len() < 3 {
            for k in 1..=3 {
                if self.procs_launched + k <= self.max_procs {
                    v.push(Action::LaunchFg(k));
                    v.push(Action::LaunchBg(k));
                }
            }
        }
        {
            let inner = self.inner.borrow();
            if inner.events_left > 0 {
                for (p, e) in inner.applicable() {
                    v.push(Action::Event(p, e));
                }
            }
        }
        v.push(Action::Observe);
        v.push(Action::EmptyLine);
        let mut ids: Vec<i32> = self.sh.jobs.keys().copied().collect();
        ids.sort();
        for id in ids {
            v.push(Action::Fg(id));
            v.push(Action::Bg(id));
        }
        v
    }

    fn main_loop_poll(&mut self) {
        vh::try_wait_bg_jobs(&mut self.sh, true, self.handler_enabled);
    }

    fn wait_fg(&mut self, gid: i32, pids: &[i32]) -> Vec<(String, String)> {
        let mut out = Vec::new();
        self.inner.borrow_mut().wait = Some(WaitCtx { pids: pids.to_vec(), calls: 0 });
        let cr = vh::wait_fg_job(&mut self.sh, gid, pids);
        let mut inner = self.inner.borrow_mut();
        inner.wait = None;
        if !inner.wait_condition_holds(pids) {
            let states: Vec<String> = pids
                .iter()
                .map(|p| match inner.children.iter().find(|c| c.pid == *p) {
                    Some(c) => format!("{}:{:?}", p - PID_BASE, c.told),
                    None => format!("{}:gone", p - PID_BASE),
                })
                .collect();
            out.push((
                "wait-early-return".to_string(),
                format!("wait_fg_job returned while a process of the job is neither reported dead nor stopped: {:?}; delivered {:?}", states, inner.delivered_log),
            ));
        } else if let Some(c) = pids.last().and_then(|last| inner.children.iter().find(|c| c.pid == *last)) {
            if let Told::Dead(s) = c.told {
                if cr.status != s {
                    out.push(("wait-status".to_string(), format!("status {} but the last process ended with {}; delivered {:?}", cr.status, s, inner.delivered_log)));
                }
            }
        }
        out
    }

    /// Execute one prompt-level action. Returns violations found by the step oracles.
    fn apply(&mut self, action: &Action, choices: &[usize]) -> Vec<(String, String)> {
        {
            let mut inner = self.inner.borrow_mut();
            inner.prefix = choices.to_vec();
            inner.pos = 0;
            inner.trace.clear();
            inner.violations.clear();
            inner.step_log_start = inner.delivered_log.len();
            inner.pruned = false;
        }
        let mut out: Vec<(String, String)> = Vec::new();
        match action {
            Action::LaunchFg(k) | Action::LaunchBg(k) => {
                let bg = matches!(action, Action::LaunchBg(_));
                let pids = pid_block(self.launches, *k);
                self.launches += 1;
                self.procs_launched += *k;
                let gid = pids[0];
                // smallest unused id before the launch
                let mut want = 1;
                while self.sh.jobs.contains_key(&want) {
                    want += 1;
                }
                for (i, p) in pids.iter().enumerate() {
                    self.inner.borrow_mut().children.push(Child { pid: *p, gid, idx_in_job: i, st: St::R, pend: None, told: Told::Running });
                    // core.rs: insert_job per forked stage
                    self.sh.insert_job(gid, *p, &format!("c{}", i), "Running", bg);
                }
                let ids: Vec<i32> = self.sh.jobs.iter().filter(|(_, j)| j.gid == gid).map(|(id, _)| *id).collect();
                if ids.len() != 1 || ids[0] != want {
                    out.push(("job-id".into(), format!("new job got id(s) {:?}, smallest unused was {}", ids, want)));
                }
                for (id, j) in self.sh.jobs.iter() {
                    if *id != j.id {
                        out.push(("job-id".into(), format!("table key {} holds job id {}", id, j.id)));
                    }
                }
                if let Some(j) = self.sh.jobs.values().find(|j| j.gid == gid) {
                    if j.pids != pids {
                        out.push(("job-members".into(), format!("job pids {:?}, launched {:?}", j.pids, pids)));
                    }
                }
                if !bg {
                    out.extend(self.wait_fg(gid, &pids));
                }
                self.main_loop_poll();
            }
            Action::Event(p, e) => {
                {
                    let mut inner = self.inner.borrow_mut();
                    inner.events_left -= 1;
                    inner.apply_event(*p, *e);
                }
                if self.handler_enabled {
                    vh::handle_sigchld();
                }
            }
            Action::Observe => {
                // what the `jobs` builtin does before listing
                vh::try_wait_bg_jobs(&mut self.sh, false, false);
                out.extend(self.table_oracle());
            }
            Action::EmptyLine => {
                self.main_loop_poll();
            }
            Action::Fg(id) => {
                // fg.rs / bg.rs start like `jobs`: apply what is already known
                vh::try_wait_bg_jobs(&mut self.sh, false, false);
                if let Some(job) = self.sh.jobs.get(id).cloned() {
                    self.inner.borrow_mut().sigcont_group(job.gid);
                    vh::mark_job_as_running(&mut self.sh, job.gid, false);
                    out.extend(self.wait_fg(job.gid, &job.pids));
                }
                self.main_loop_poll();
            }
            Action::Bg(id) => {
                vh::try_wait_bg_jobs(&mut self.sh, false, false);
                if let Some(job) = self.sh.jobs.get(id).cloned() {
                    self.inner.borrow_mut().sigcont_group(job.gid);
                    if job.status != "Running" {
                        vh::mark_job_as_running(&mut self.sh, job.gid, true);
                    }
                }
                self.main_loop_poll();
            }
        }
        let mut inner = self.inner.borrow_mut();
        out.extend(inner.violations.drain(..));
        // forget reaped children that the shell's table no longer refers to (canonicalisation:
        // they cannot influence any future step)
        let referenced: BTreeSet<i32> = self.sh.jobs.values().flat_map(|j| j.pids.iter().copied()).collect();
        let maps = vh::maps_snapshot();
        let in_maps: BTreeSet<i32> = maps.0.iter().map(|x| x.0).chain(maps.1.iter().copied()).chain(maps.2.iter().copied()).chain(maps.3.iter().map(|x| x.0)).collect();
        inner.children.retain(|c| c.st != St::X || referenced.contains(&c.pid) || in_maps.contains(&c.pid));
        out
    }

    /// After the drain of `jobs`: table == kernel truth.
    fn table_oracle(&self) -> Vec<(String, String)> {
        let inner = self.inner.borrow();
        let mut out = Vec::new();
        if inner.children.iter().any(|c| c.pend.is_some()) && !self.sh.jobs.is_empty() {
            out.push(("poll-not-drained".into(), "a notification is still pending after the poll".into()));
        }
        let mut expect: BTreeMap<i32, bool> = BTreeMap::new(); // gid -> all live stopped
        for c in &inner.children {
            if c.st == St::R || c.st == St::T {
                let e = expect.entry(c.gid).or_insert(true);
                if c.st == St::R {
                    *e = false;
                }
            }
        }
        // a job whose notifications could not be drained because the table was empty is not
        // judged here (try_wait_bg_jobs returns at once on an empty table; nothing is listed)
        let listed: BTreeMap<i32, String> = self.sh.jobs.values().map(|j| (j.gid, j.status.clone())).collect();
        let undrained = inner.children.iter().any(|c| c.pend.is_some());
        for (gid, all_stopped) in &expect {
            match listed.get(gid) {
                None => out.push(("table-missing-live-job".into(), format!("job with gid {} has a live process but is not listed", gid - PID_BASE))),
                Some(st) => {
                    if undrained {
                        continue;
                    }
                    let want = if *all_stopped { "Stopped" } else { "Running" };
                    if st != want {
                        out.push((format!("table-status-{}-shown-{}", want, st), format!("job gid {} is {} but listed as {}", gid - PID_BASE, want, st)));
                    }
                }
            }
        }
        for (gid, _) in &listed {
            if !expect.contains_key(gid) && !undrained {
                out.push(("table-lists-dead-job".into(), format!("job with gid {} has no live process but is still listed", gid - PID_BASE)));
            }
        }
        if !out.is_empty() {
            let jobs: Vec<String> = self.sh.jobs.values().map(|j| format!("[{}] gid {} pids {:?} stopped {:?} {} bg={}", j.id, j.gid - PID_BASE, j.pids.iter().map(|p| p - PID_BASE).collect::<Vec<_>>(), j.pids_stopped.iter().map(|p| p - PID_BASE).collect::<Vec<_>>(), j.status, j.is_bg)).collect();
            let kids: Vec<String> = inner.children.iter().map(|c| format!("{}:{:?}", c.pid - PID_BASE, c.st)).collect();
            let extra = format!(" | table: {:?} | kernel: {:?} | notifications delivered so far: {:?}", jobs, kids, inner.delivered_log);
            for o in out.iter_mut() {
                o.1.push_str(&extra);
            }
        }
        out
    }

    fn canon(&self) -> String {
        let inner = self.inner.borrow();
        let mut s = String::new();
        let mut ids: Vec<&i32> = self.sh.jobs.keys().collect();
        ids.sort();
        for id in ids {
            let j = &self.sh.jobs[id];
            let mut st: Vec<i32> = j.pids_stopped.iter().copied().collect();
            st.sort();
            s.push_str(&format!("J{}:{}:{:?}:{:?}:{}:{};", j.id, j.gid, j.pids, st, j.status, j.is_bg));
        }
        s.push_str(&format!("M{:?};", vh::maps_snapshot()));
        for c in &inner.children {
            s.push_str(&format!("C{}:{:?}:{:?}:{:?};", c.pid, c.st, c.pend, c.told));
        }
        s.push_str(&format!("E{}D{}L{}P{}", inner.events_left, inner.deviations_left, self.launches, self.procs_launched));
        s
    }
}


fn action_str(a: &Action) -> String {
    match a {
        Action::LaunchFg(k) => format!("F{}", k),
        Action::LaunchBg(k) => format!("B{}", k),
        Action::Event(p, e) => format!("E{}:{}", p, match e { Ev::Stop => 's', Ev::Cont => 'c', Ev::Exit => 'x', Ev::Kill => 'k' }),
        Action::Observe => "O".to_string(),
        Action::EmptyLine => "L".to_string(),
        Action::Fg(id) => format!("f{}", id),
        Action::Bg(id) => format!("b{}", id),
    }
}

fn action_parse(s: &str) -> Action {
    let (h, t) = s.split_at(1);
    match h {
        "F" => Action::LaunchFg(t.parse().unwrap()),
        "B" => Action::LaunchBg(t.parse().unwrap()),
        "E" => {
            let mut it = t.split(':');
            let p: i32 = it.next().unwrap().parse().unwrap();
            let e = match it.next().unwrap() { "s" => Ev::Stop, "c" => Ev::Cont, "x" => Ev::Exit, _ => Ev::Kill };
            Action::Event(p, e)
        }
        "O" => Action::Observe,
        "L" => Action::EmptyLine,
        "f" => Action::Fg(t.parse().unwrap()),
        _ => Action::Bg(t.parse().unwrap()),
    }
}

fn action_human(a: &Action) -> String {
    match a {
        Action::Event(p, e) => format!("Event(pid {}, {:?})", p - PID_BASE, e),
        Action::LaunchFg(k) => format!("launch foreground job of {} process(es)", k),
        Action::LaunchBg(k) => format!("launch background job of {} process(es)", k),
        Action::Observe => "jobs".to_string(),
        Action::EmptyLine => "empty line (prompt poll)".to_string(),
        Action::Fg(id) => format!("fg {}", id),
        Action::Bg(id) => format!("bg {}", id),
    }
}

struct Node {
    parent: u32,
    step: Step,
    snap: Snapshot,
}

fn history(arena: &[Node], mut idx: u32) -> Vec<Step> {
    let mut v = Vec::new();
    while idx != 0 {
        v.push(arena[idx as usize].step.clone());
        idx = arena[idx as usize].parent;
    }
    v.reverse();
    v
}

fn hist_json(hist: &[Step]) -> Value {
    json!(hist.iter().map(|s| json!({"action": action_human(&s.action), "wait_choices": s.choices})).collect::<Vec<_>>())
}

#[derive(Default)]
struct Stats {
    states: u64,
    transitions: u64,
    max_depth: usize,
    choice_points: u64,
    parked_states: u64,
    forced: u64,
    pruned: u64,
}

fn hash2(s: &str) -> (u64, u64) {
    let mut h1: u64 = 0xcbf29ce484222325;
    let mut h2: u64 = 0x9e3779b97f4a7c15;
    for b in s.as_bytes() {
        h1 ^= *b as u64;
        h1 = h1.wrapping_mul(0x100000001b3);
        h2 = (h2 ^ (*b as u64)).wrapping_mul(0xff51afd7ed558ccd).rotate_left(31);
    }
    (h1, h2)
}

/// Expand one state: every enabled action, every inner choice sequence (DFS with sound pruning).
/// `take(item)` decides whether this worker owns a work item; with `split_first` the executions
/// of one action are additionally split by their first inner choice.
/// Calls `emit(action, choices, key, violations, parked)` for every completed execution.
fn expand(
    snap: &Snapshot,
    handler: bool,
    max_launches: usize,
    stats: &mut Stats,
    split_first: bool,
    item: &mut u64,
    take: &dyn Fn(u64) -> bool,
    mut emit: impl FnMut(&Action, &[usize], (u64, u64), Vec<(String, String)>, bool),
) {
    let w = World::from_snapshot(snap, handler);
    let actions = w.enabled(max_launches);
    drop(w);
    for action in actions {
        let mut roots: Vec<Vec<usize>> = Vec::new();
        if split_first && matches!(action, Action::LaunchFg(_) | Action::Fg(_)) {
            // probe: how many options has the first choice point?
            let mut w = World::from_snapshot(snap, handler);
            let _ = w.apply(&action, &[]);
            let n0 = w.inner.borrow().trace.first().map(|t| t.0).unwrap_or(0);
            drop(w);
            if n0 == 0 {
                *item += 1;
                if take(*item) {
                    roots.push(Vec::new());
                }
            } else {
                for c0 in 0..n0 {
                    *item += 1;
                    if take(*item) {
                        roots.push(vec![c0]);
                    }
                }
            }
        } else {
            *item += 1;
            if take(*item) {
                roots.push(Vec::new());
            }
        }
        for root in roots {
            let fixed = root.len();
            let mut stack: Vec<Vec<usize>> = vec![root];
            let visited: Rc<RefCell<HashSet<(u64, u64)>>> = Rc::new(RefCell::new(HashSet::new()));
            while let Some(prefix) = stack.pop() {
                let mut w = World::from_snapshot(snap, handler);
                w.inner.borrow_mut().visited = visited.clone();
                let v = w.apply(&action, &prefix);
                let pruned = w.inner.borrow().pruned;
                stats.transitions += 1;
                let trace = w.inner.borrow().trace.clone();
                stats.forced += w.inner.borrow().forced as u64;
                stats.choice_points += trace.len() as u64;
                for i in prefix.len().max(fixed)..trace.len() {
                    let (n, _) = trace[i];
                    for alt in 1..n {
                        let mut p: Vec<usize> = trace[..i].iter().map(|t| t.1).collect();
                        p.push(alt);
                        stack.push(p);
                    }
                }
                if pruned {
                    stats.pruned += 1;
                    continue;
                }
                let chosen: Vec<usize> = trace.iter().map(|t| t.1).collect();
                let maps = vh::maps_snapshot();
                let parked = !maps.0.is_empty() || !maps.1.is_empty() || !maps.2.is_empty() || !maps.3.is_empty();
                let key = hash2(&w.canon());
                emit(&action, &chosen, key, v, parked);
            }
        }
    }
}

#[allow(clippy::too_many_arguments)]
fn explore_config(
    ctx: &Ctx,
    events: u32,
    deviations: u32,
    handler: bool,
    max_launches: usize,
    deadline: Instant,
    viol: &mut BTreeMap<String, (u64, Vec<Value>)>,
    samples: &mut Vec<Value>,
) -> (Stats, bool) {
    use std::io::{BufRead, BufReader, Write};
    let mut stats = Stats::default();
    let mut seen: HashSet<(u64, u64)> = HashSet::new();
    let mut w0 = World::new(events, deviations, handler);
    w0.max_procs = if ctx.thorough() { 6 } else { 4 };
    seen.insert(hash2(&w0.canon()));
    let mut arena: Vec<Node> = vec![Node { parent: 0, step: Step { action: Action::Observe, choices: vec![] }, snap: w0.snapshot() }];
    drop(w0);
    let mut frontier: Vec<u32> = vec![0];
    stats.states = 1;
    let mut capped = false;
    let nw = ctx.workers.max(1);
    let mut depth = 0usize;
    while !frontier.is_empty() {
        if Instant::now() > deadline {
            capped = true;
            break;
        }
        depth += 1;
        stats.max_depth = depth;
        let use_workers = nw;
        let split_first = frontier.len() < 200;
        let paths: Vec<String> = (0..use_workers).map(|k| format!("{}/c06-level-{}.txt", ctx.scratch, k)).collect();
        let mut pids = Vec::new();
        for k in 0..use_workers {
            let pid = unsafe { libc::fork() };
            if pid == 0 {
                // worker: expand frontier[i] for i % use_workers == k
                let mut out = std::io::BufWriter::new(std::fs::File::create(&paths[k]).unwrap());
                let mut local: HashSet<(u64, u64)> = HashSet::new();
                let mut st = Stats::default();
                let mut timed_out = false;
                let mut item: u64 = 0;
                let take = |it: u64| (it % use_workers as u64) == k as u64;
                for idx in frontier.iter() {
                    if Instant::now() > deadline {
                        timed_out = true;
                        break;
                    }
                    let r = std::panic::catch_unwind(std::panic::AssertUnwindSafe(|| {
                        expand(&arena[*idx as usize].snap, handler, max_launches, &mut st, split_first, &mut item, &take, |a, ch, key, v, parked| {
                            let chs: Vec<String> = ch.iter().map(|c| c.to_string()).collect();
                            if !v.is_empty() {
                                for (sig, what) in v {
                                    let _ = writeln!(out, "V\t{}\t{}\t{}\t{}\t{}", idx, action_str(a), chs.join(","), sig, what.replace('\t', " ").replace('\n', " "));
                                }
                                return; // states reached through a violation are not expanded
                            }
                            if !seen.contains(&key) && local.insert(key) {
                                let _ = writeln!(out, "N\t{}\t{}\t{}\t{}\t{}\t{}", idx, action_str(a), chs.join(","), key.0, key.1, parked as u8);
                            }
                        });
                    }));
                    if r.is_err() {
                        let _ = writeln!(out, "P\t{}\t{}", idx, crate::explore::take_last_panic().replace('\t', " ").replace('\n', " "));
                    }
                }
                let _ = writeln!(out, "S\t{}\t{}\t{}\t{}\t{}", st.transitions, st.choice_points, st.forced, st.pruned, timed_out as u8);
                let _ = out.flush();
                unsafe { libc::_exit(0) };
            }
            pids.push(pid);
        }
        for pid in pids {
            let mut stt = 0;
            unsafe { libc::waitpid(pid, &mut stt, 0) };
        }
        let mut next: Vec<u32> = Vec::new();
        for p in &paths {
            let f = match std::fs::File::open(p) {
                Ok(f) => f,
                Err(_) => continue,
            };
            let mut saw_stats = false;
            for line in BufReader::new(f).lines().map_while(Result::ok) {
                let parts: Vec<&str> = line.split('\t').collect();
                match parts[0] {
                    "N" => {
                        let parent: u32 = parts[1].parse().unwrap();
                        let key = (parts[4].parse::<u64>().unwrap(), parts[5].parse::<u64>().unwrap());
                        if !seen.insert(key) {
                            continue;
                        }
                        let action = action_parse(parts[2]);
                        let choices: Vec<usize> = if parts[3].is_empty() { vec![] } else { parts[3].split(',').map(|c| c.parse().unwrap()).collect() };
                        // re-derive the state by re-executing the step (also checks determinism)
                        let mut w = World::from_snapshot(&arena[parent as usize].snap, handler);
                        let _ = w.apply(&action, &choices);
                        let k2 = hash2(&w.canon());
                        if k2 != key {
                            panic!("REPLAY-DIVERGENCE: re-executing {:?} {:?} from node {} gives a different state", action, choices, parent);
                        }
                        stats.states += 1;
                        if parts[6] == "1" {
                            stats.parked_states += 1;
                        }
                        let snap = w.snapshot();
                        drop(w);
                        arena.push(Node { parent, step: Step { action, choices }, snap });
                        let id = (arena.len() - 1) as u32;
                        if samples.len() < 6 && depth >= 3 && !arena[id as usize].step.choices.is_empty() {
                            samples.push(json!({"history": hist_json(&history(&arena, id))}));
                        }
                        next.push(id);
                    }
                    "V" => {
                        let parent: u32 = parts[1].parse().unwrap();
                        let action = action_parse(parts[2]);
                        let choices: Vec<usize> = if parts[3].is_empty() { vec![] } else { parts[3].split(',').map(|c| c.parse().unwrap()).collect() };
                        let sig = format!("{}:{}", parts[4], if handler { "handler" } else { "poll" });
                        let e = viol.entry(sig).or_insert((0, Vec::new()));
                        e.0 += 1;
                        if e.1.len() < 3 {
                            let mut h = history(&arena, parent);
                            h.push(Step { action, choices });
                            e.1.push(json!({"case": {"history": hist_json(&h), "events_budget": events, "drain_deviations": deviations, "sigchld_handler": handler},
                                            "expected": "job table / wait behaviour of the statement", "observed": parts[5]}));
                        }
                    }
                    "P" => panic!("explorer worker panicked: {}", parts[2]),
                    "S" => {
                        saw_stats = true;
                        stats.transitions += parts[1].parse::<u64>().unwrap();
                        stats.choice_points += parts[2].parse::<u64>().unwrap();
                        stats.forced += parts[3].parse::<u64>().unwrap();
                        stats.pruned += parts[4].parse::<u64>().unwrap();
                        if parts[5] == "1" {
                            capped = true;
                        }
                    }
                    _ => {}
                }
            }
            if !saw_stats {
                panic!("explorer worker died without a result");
            }
            let _ = std::fs::remove_file(p);
        }
        frontier = next;
        if capped {
            break;
        }
    }
    (stats, capped)
}

// ------------------------------------------------------------------------------------------
// Binding the kernel model to the real kernel: prompt-level traces are replayed with real forked
// children and real signals through the same `try_wait_bg_jobs` (no fake installed, only a
// logging pass-through), and must give the same notifications and the same job table.

fn proc_state(pid: i32) -> char {
    match std::fs::read_to_string(format!("/proc/{}/stat", pid)) {
        Ok(s) => {
            // pid (comm) S ...
            match s.rfind(')') {
                Some(i) => s[i + 1..].trim_start().chars().next().unwrap_or('?'),
                None => '?',
            }
        }
        Err(_) => 'X',
    }
}

fn wait_state(pid: i32, want: &[char]) -> bool {
    let t = Instant::now();
    while t.elapsed() < Duration::from_secs(5) {
        if want.contains(&proc_state(pid)) {
            return true;
        }
        std::thread::sleep(Duration::from_micros(200));
    }
    false
}

extern "C" fn usr1_exit(_s: i32) {
    unsafe { libc::_exit(EXIT_CODE.load(std::sync::atomic::Ordering::SeqCst)) }
}
static EXIT_CODE: std::sync::atomic::AtomicI32 = std::sync::atomic::AtomicI32::new(1);

fn spawn_real(k: usize) -> Vec<i32> {
    let mut pids = Vec::new();
    let mut gid = 0;
    let mut fds = [0i32; 2];
    unsafe { libc::pipe(fds.as_mut_ptr()) };
    for i in 0..k {
        let pid = unsafe { libc::fork() };
        if pid == 0 {
            unsafe {
                EXIT_CODE.store(1 + i as i32, std::sync::atomic::Ordering::SeqCst);
                libc::signal(libc::SIGUSR1, usr1_exit as usize);
                libc::signal(libc::SIGTERM, libc::SIG_DFL);
                libc::setpgid(0, if i == 0 { 0 } else { gid });
                libc::close(fds[0]);
                libc::write(fds[1], b"r".as_ptr() as *const libc::c_void, 1);
                libc::close(fds[1]);
                loop {
                    libc::pause();
                }
            }
        }
        if i == 0 {
            gid = pid;
        }
        unsafe { libc::setpgid(pid, gid) };
        pids.push(pid);
    }
    unsafe {
        libc::close(fds[1]);
        let mut b = [0u8; 1];
        for _ in 0..k {
            libc::read(fds[0], b.as_mut_ptr() as *mut libc::c_void, 1); // child is set up
        }
        libc::close(fds[0]);
    }
    pids
}

/// (delivered notifications per drain as sorted multisets, final table [(sorted member idx, status)])
type Obs = (Vec<Vec<String>>, Vec<(Vec<usize>, String)>);

fn conf_model(k: usize, script: &[(usize, Ev, bool)]) -> Result<Obs, String> {
    let mut w = World::new(script.len() as u32, 0, false);
    w.max_procs = 6;
    let v = w.apply(&Action::LaunchBg(k), &[]);
    if !v.is_empty() {
        return Err(format!("model violation at launch {:?}", v));
    }
    let pids = pid_block(0, k);
    let mut drains: Vec<Vec<String>> = Vec::new();
    let mut mark = 0usize;
    for (ci, ev, observe) in script {
        let _ = w.apply(&Action::Event(pids[*ci], *ev), &[]);
        if *observe {
            let _ = w.apply(&Action::Observe, &[]);
            let inner = w.inner.borrow();
            let mut d: Vec<String> = inner.delivered_log[mark..].iter().map(|x| {
                let mut it = x.splitn(2, ':');
                let p: i32 = it.next().unwrap().parse().unwrap();
                let idx = pids.iter().position(|q| q - PID_BASE == p).unwrap();
                format!("{}:{}", idx, it.next().unwrap())
            }).collect();
            mark = inner.delivered_log.len();
            d.sort();
            drains.push(d);
        }
    }
    let mut table: Vec<(Vec<usize>, String)> = w
        .sh
        .jobs
        .values()
        .map(|j| {
            let mut m: Vec<usize> = j.pids.iter().map(|p| pids.iter().position(|q| q == p).unwrap()).collect();
            m.sort();
            (m, j.status.clone())
        })
        .collect();
    table.sort();
    Ok((drains, table))
}

fn conf_real(k: usize, script: &[(usize, Ev, bool)]) -> Result<Obs, String> {
    vh::maps_reset();
    let log: Rc<RefCell<Vec<String>>> = Rc::new(RefCell::new(Vec::new()));
    let pids = spawn_real(k);
    let l2 = log.clone();
    let p2 = pids.clone();
    vh::install_fake_waitpid(Some(Box::new(move |pid, block| {
        let mut flags = nix::sys::wait::WaitPidFlag::WUNTRACED | nix::sys::wait::WaitPidFlag::WCONTINUED;
        if !block {
            flags |= nix::sys::wait::WaitPidFlag::WNOHANG;
        }
        let r = nix::sys::wait::waitpid(Pid::from_raw(pid), Some(flags));
        let idx = |p: Pid| p2.iter().position(|q| *q == p.as_raw()).map(|i| i as i64).unwrap_or(-1);
        match &r {
            Ok(WS::Exited(p, c)) => l2.borrow_mut().push(format!("{}:Exited({})", idx(*p), c)),
            Ok(WS::Signaled(p, s, _)) => l2.borrow_mut().push(format!("{}:Signaled({})", idx(*p), *s as i32)),
            Ok(WS::Stopped(p, _)) => l2.borrow_mut().push(format!("{}:Stopped", idx(*p))),
            Ok(WS::Continued(p)) => l2.borrow_mut().push(format!("{}:Continued", idx(*p))),
            _ => {}
        }
        r
    })));
    let mut sh = vh::Shell::new();
    sh.has_terminal = false;
    for (i, p) in pids.iter().enumerate() {
        sh.insert_job(pids[0], *p, &format!("c{}", i), "Running", true);
    }
    let mut drains: Vec<Vec<String>> = Vec::new();
    let mut mark = 0usize;
    let mut err: Option<String> = None;
    for (ci, ev, observe) in script {
        let pid = pids[*ci];
        let (sig, want): (i32, &[char]) = match ev {
            Ev::Stop => (libc::SIGSTOP, &['T']),
            Ev::Cont => (libc::SIGCONT, &['S', 'R']),
            Ev::Exit => (libc::SIGUSR1, &['Z', 'X']),
            Ev::Kill => (libc::SIGKILL, &['Z', 'X']),
        };
        unsafe { libc::kill(pid, sig) };
        if !wait_state(pid, want) {
            err = Some(format!("real child did not reach state {:?} after {:?}", want, ev));
            break;
        }
        if *observe {
            vh::try_wait_bg_jobs(&mut sh, false, false);
            let mut d: Vec<String> = log.borrow()[mark..].to_vec();
            mark = log.borrow().len();
            d.sort();
            drains.push(d);
        }
    }
    let mut table: Vec<(Vec<usize>, String)> = sh
        .jobs
        .values()
        .map(|j| {
            let mut m: Vec<usize> = j.pids.iter().map(|p| pids.iter().position(|q| q == p).unwrap_or(99)).collect();
            m.sort();
            (m, j.status.clone())
        })
        .collect();
    table.sort();
    vh::install_fake_waitpid(None);
    vh::install_job_order(None);
    for p in &pids {
        unsafe {
            libc::kill(*p, libc::SIGKILL);
            libc::kill(*p, libc::SIGCONT);
        }
    }
    loop {
        let mut st = 0;
        let r = unsafe { libc::waitpid(-1, &mut st, 0) };
        if r <= 0 {
            break;
        }
    }
    match err {
        Some(e) => Err(e),
        None => Ok((drains, table)),
    }
}

/// All event scripts of length <= max_len on one background job of k processes.
fn conf_scripts(k: usize, max_len: usize) -> Vec<Vec<(usize, Ev, bool)>> {
    // per-process state machine to keep scripts applicable
    fn rec(k: usize, max_len: usize, cur: &mut Vec<(usize, Ev, bool)>, st: &mut Vec<St>, out: &mut Vec<Vec<(usize, Ev, bool)>>) {
        if !cur.is_empty() {
            // the last step always observes
            let mut c = cur.clone();
            let n = c.len();
            c[n - 1].2 = true;
            out.push(c);
        }
        if cur.len() == max_len {
            return;
        }
        for ci in 0..k {
            let evs: Vec<Ev> = match st[ci] {
                St::R => vec![Ev::Stop, Ev::Exit, Ev::Kill],
                St::T => vec![Ev::Cont, Ev::Kill],
                _ => vec![],
            };
            for ev in evs {
                for obs in [false, true] {
                    let old = st[ci];
                    st[ci] = match ev {
                        Ev::Stop => St::T,
                        Ev::Cont => St::R,
                        _ => St::Z,
                    };
                    cur.push((ci, ev, obs));
                    rec(k, max_len, cur, st, out);
                    cur.pop();
                    st[ci] = old;
                }
            }
        }
    }
    let mut out = Vec::new();
    rec(k, max_len, &mut Vec::new(), &mut vec![St::R; k], &mut out);
    out.sort_by_key(|s| format!("{:?}", s));
    out.dedup_by_key(|s| format!("{:?}", s));
    out
}

fn conformance(thorough: bool) -> (u64, Vec<String>, Vec<Value>) {
    let mut n_ok = 0u64;
    let mut mismatches: Vec<String> = Vec::new();
    let mut samples: Vec<Value> = Vec::new();
    let plan: Vec<(usize, usize)> = if thorough { vec![(1, 4), (2, 3)] } else { vec![(1, 3), (2, 2)] };
    for (k, max_len) in plan {
        for script in conf_scripts(k, max_len) {
            let desc = format!("bg job of {} real process(es), events {:?}", k, script);
            let m = conf_model(k, &script);
            let r = conf_real(k, &script);
            match (m, r) {
                (Ok(a), Ok(b)) => {
                    if a == b {
                        n_ok += 1;
                        if samples.len() < 3 && script.len() >= 2 {
                            samples.push(json!({"conformance_trace": desc, "notifications_per_drain": a.0, "table": format!("{:?}", a.1)}));
                        }
                    } else {
                        mismatches.push(format!("{}: model {:?} vs real kernel {:?}", desc, a, b));
                    }
                }
                (Err(e), _) | (_, Err(e)) => mismatches.push(format!("{}: {}", desc, e)),
            }
        }
    }
    (n_ok, mismatches, samples)
}

pub fn run(ctx: &Ctx) -> Value {
    crate::explore::install_quiet_panic_hook();
    unsafe {
        // the real code prints job notices on stderr
        let fd = libc::open(b"/dev/null\0".as_ptr() as *const libc::c_char, libc::O_RDWR);
        libc::dup2(fd, 2);
    }
    let (conf_ok, conf_bad, conf_samples) = conformance(ctx.thorough());
    let budget: u64 = std::env::var("VC_BUDGET").ok().and_then(|v| v.parse().ok()).unwrap_or(if ctx.thorough() { 1500 } else { 75 });
    let deadline = Instant::now() + Duration::from_secs(budget);
    let bounds: Vec<u32> = if ctx.thorough() { vec![2, 3, 4, 5, 6, 7, 9, 11] } else { vec![2, 3] };
    let max_launches = 4;
    let mut viol: BTreeMap<String, (u64, Vec<Value>)> = BTreeMap::new();
    let mut samples: Vec<Value> = Vec::new();
    let mut levels: Vec<Value> = Vec::new();
    let mut tot_states = 0u64;
    let mut tot_trans = 0u64;
    let mut capped_any = false;
    let mut parked = 0u64;
    let mut completed_events: i64 = -1;
    'outer: for ev in bounds {
        for (handler, dev) in [(false, 0u32), (true, 0u32), (false, 1u32)] {
            if Instant::now() > deadline {
                levels.push(json!({"events": ev, "sigchld_handler": handler, "drain_deviations": dev, "complete": false, "skipped": true}));
                capped_any = true;
                continue;
            }
            let t = Instant::now();
            let r = std::panic::catch_unwind(std::panic::AssertUnwindSafe(|| explore_config(ctx, ev, dev, handler, max_launches, deadline, &mut viol, &mut samples)));
            match r {
                Ok((st, capped)) => {
                    levels.push(json!({"events": ev, "sigchld_handler": handler, "drain_deviations": dev, "states": st.states,
                                       "transitions": st.transitions, "max_depth": st.max_depth, "choice_points": st.choice_points,
                                       "states_with_parked_events": st.parked_states, "forced_drain_events": st.forced,
                                       "executions_pruned_as_duplicates": st.pruned,
                                       "complete": !capped, "wall_s": t.elapsed().as_secs_f64()}));
                    tot_states += st.states;
                    tot_trans += st.transitions;
                    parked += st.parked_states;
                    if capped {
                        capped_any = true;
                        break 'outer;
                    }
                    if !handler && dev == 0 {
                        completed_events = ev as i64;
                    }
                }
                Err(_) => {
                    let p = crate::explore::take_last_panic();
                    return json!({"machinery_errors": [format!("explorer panicked: {}", p)], "violations": [], "evaluations": 0});
                }
            }
        }
    }
    vh::install_fake_waitpid(None);
    vh::install_job_order(None);
    let violations: Vec<Value> = viol.iter().map(|(sig, (n, w))| json!({"sig": sig, "count": n, "witnesses": w})).collect();
    let mut merr: Vec<String> = Vec::new();
    if parked == 0 {
        merr.push("vacuity guard: no state in which a foreground wait parked a background event".into());
    }
    for m in conf_bad.iter().take(5) {
        merr.push(format!("kernel-model conformance mismatch (the model misrepresents the real kernel or the replay is flaky): {}", m));
    }
    samples.extend(conf_samples);
    json!({
        "traces_validated": conf_ok,
        "evaluations": tot_trans, "nontrivial": tot_states, "states": tot_states, "transitions": tot_trans,
        "outcomes": {"states_with_parked_events": parked}, "violations": violations, "samples": samples,
        "capped": capped_any, "levels": levels, "machinery_errors": merr, "completed_event_bound": completed_events,
    })
}
