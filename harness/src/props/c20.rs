//! C20 — what TAB inserts for a file name is read back as exactly that file (in-process layer).
//!
//! The pty layer (vlib/props/c20.py) drives the real line editor; it is limited by process creation and terminal
//! round trips to a few thousand names. This layer composes the same steps from the real functions:
//!   word start      = completers::escaped_word_start(typed line)              (what CicadaCompleter::word_start uses)
//!   completion      = completers::path::complete_path(word, for_dir)          (what Path/CdCompleter::complete use)
//!   edited line     = typed[..start] + completion + suffix                    (single candidate: the editor replaces the word)
//!   Enter           = trim_multiline_prompts, extend_bangbang (with a previous command), list split, plan
//! and checks that the planned argv is exactly [command, entry name]. The composition is a *model of the editor glue*
//! only (every other step is the real code); it is bound to the real editor by conformance: every (context, name)
//! verdict of the pty layer is recomputed here and must agree (see `conformance`).
use crate::explore::{self, Acc, CaseRepr, SweepOpts, SweepResult};
use crate::plan;
use crate::Ctx;
use cicada::verif_hooks as vh;
use serde_json::{json, Value};
use std::time::{Duration, Instant};

pub const ALPHA: [&str; 27] = [
    " ", "'", "\"", "$", "*", "?", "[", "]", "{", "}", ",", "~", "#", "|", "&", ";", "<", ">", "(", ")", "\\", "!", "`", "=", "%", "^", "é",
];
pub const CONTEXTS: [&str; 6] = ["unquoted", "single-quote", "double-quote", "cd", "cd-single-quote", "cd-double-quote"];
const PREFIX: &str = "ab";

/// where the entry lives relative to the shell's working directory, and how that is typed
pub const LOCATIONS: [(&str, &str); 5] = [("cwd", ""), ("subdirectory", "sd/"), ("home", "~/"), ("variable", "$VDIR/"), ("subdirectory-with-blank", "s d/")];

#[derive(Clone)]
pub struct Case {
    ctx: usize,
    name: String,
    loc: usize,
    variant: usize,
}

impl CaseRepr for Case {
    fn repr(&self) -> Value {
        json!({"context": CONTEXTS[self.ctx], "also_on_the_line": VARIANTS[self.variant], "location": LOCATIONS[self.loc].0, "entry_name": format!("PREFIX{}", self.name), "typed": typed_line(self.ctx, self.loc).replace(PREFIX, "PREFIX") + "<TAB><Enter>"})
    }
}

fn typed_line(ctx: usize, loc: usize) -> String {
    let mut l = LOCATIONS[loc].1.to_string();
    if l.contains(' ') && (CONTEXTS[ctx] == "unquoted" || CONTEXTS[ctx] == "cd") {
        // (the quoted cd contexts type the blank as it is)
        l = l.replace(' ', "\\ ");      // typed with an escaped blank outside quotes
    }
    match CONTEXTS[ctx] {
        "unquoted" => format!("vh-argv {}{}", l, PREFIX),
        "single-quote" => format!("vh-argv '{}{}", l, PREFIX),
        "double-quote" => format!("vh-argv \"{}{}", l, PREFIX),
        "cd-single-quote" => format!("cd '{}{}", l, PREFIX),
        "cd-double-quote" => format!("cd \"{}{}", l, PREFIX),
        _ => format!("cd {}{}", l, PREFIX),
    }
}

fn name_class(name: &str) -> String {
    let mut cs: Vec<String> = name.chars().map(|c| if c == ' ' { "blank".to_string() } else { c.to_string() }).collect();
    cs.sort();
    cs.dedup();
    cs.join("")
}

/// What else is on the line: nothing, an argument in front of the completed word (its end must not confuse the word-start
/// computation), or one more character of the name typed by the user before TAB (escaped as a user would).
pub const VARIANTS: [&str; 7] = ["plain", "after-argument-ending-in-escaped-backslash", "after-single-quoted-argument", "after-double-quoted-argument", "after-argument-with-escaped-blank", "one-more-character-typed",
    // the entry is the only one in its directory and its name has no letter prefix: the typed word is the first character
    // of the name (a one-character prefix that is a special character, escaped as a user would)
    "no-letter-prefix-first-character-typed"];
const BEFORE: [(&str, &str); 5] = [("", ""), ("x\\\\ ", "x\\"), ("'q' ", "q"), ("\"d q\" ", "d q"), ("a\\ b ", "a b")];

/// ok / deviation kind + what was observed
pub fn verdict(ctx: usize, name: &str, workdir: &str, loc: usize) -> (String, Value) {
    verdict_variant(ctx, name, workdir, loc, 0)
}

pub fn verdict_variant(ctx: usize, name: &str, workdir: &str, loc: usize, variant: usize) -> (String, Value) {
    let bare = variant >= 6;
    if bare && (name.is_empty() || name == "." || name == "..") {
        return ("skipped".into(), Value::Null);
    }
    let full = if bare { name.to_string() } else { format!("{}{}", PREFIX, name) };
    // what the program must receive: the entry's path as typed, with `~` / the variable replaced by the directory
    let (dir, expect_prefix) = match LOCATIONS[loc].0 {
        "cwd" => (workdir.to_string(), String::new()),
        "subdirectory" => (format!("{}/sd", workdir), "sd/".to_string()),
        "home" => (format!("{}/home", workdir), format!("{}/home/", workdir)),
        "subdirectory-with-blank" => (format!("{}/s d", workdir), "s d/".to_string()),
        _ => (format!("{}/vdir", workdir), format!("{}/vdir/", workdir)),
    };
    let _ = std::fs::create_dir_all(&dir);
    std::env::set_var("HOME", format!("{}/home", workdir));
    std::env::set_var("VDIR", format!("{}/vdir", workdir));
    // single quotes keep `~` and `$VDIR` literal: those location / context pairs are not meaningful
    if CONTEXTS[ctx].ends_with("single-quote") && (loc == 2 || loc == 3) || CONTEXTS[ctx].ends_with("double-quote") && LOCATIONS[loc].0 == "home" {
        return ("skipped".into(), Value::Null);
    }
    let path = format!("{}/{}", dir, full);
    let full = format!("{}{}", expect_prefix, full);
    let for_dir = CONTEXTS[ctx].starts_with("cd");
    let made = if for_dir { std::fs::create_dir(&path).is_ok() } else { std::fs::write(&path, b"x").is_ok() };
    if !made {
        return ("machinery".into(), json!(format!("cannot create {:?}", path)));
    }
    let mut typed = typed_line(ctx, loc);
    if bare {
        typed = typed[..typed.len() - PREFIX.len()].to_string();
    }
    let mut prev_arg: Option<&str> = None;
    if (1..=4).contains(&variant) {
        // `cmd ARG word`: insert the argument after the command name
        let (text, value) = BEFORE[variant];
        let cut = typed.find(' ').unwrap() + 1;
        typed = format!("{}{}{}", &typed[..cut], text, &typed[cut..]);
        prev_arg = Some(value);
        if for_dir {
            let _ = if for_dir { std::fs::remove_dir_all(&path) } else { std::fs::remove_file(&path) };
            return ("skipped".into(), Value::Null);
        }
    }
    if variant == 5 || variant == 6 {
        // the user types the first character of the name too
        let c = match name.chars().next() {
            Some(c) => c,
            None => return ("skipped".into(), Value::Null),
        };
        let quoted = CONTEXTS[ctx].ends_with("quote");
        let ok = if CONTEXTS[ctx].ends_with("single-quote") { c != '\'' } else if CONTEXTS[ctx].ends_with("double-quote") { !"\"$`\\!".contains(c) } else { true };
        if !ok {
            let _ = if for_dir { std::fs::remove_dir_all(&path) } else { std::fs::remove_file(&path) };
            return ("skipped".into(), Value::Null);
        }
        if quoted || c.is_alphanumeric() {
            typed.push(c);
        } else {
            typed.push('\\');
            typed.push(c);
        }
    }
    let res = explore::guarded(|| {
        let start = vh::escaped_word_start(&typed);
        let word = &typed[start..];
        let comps = vh::complete_path(word, for_dir);
        let mut line = typed.clone();
        if comps.len() == 1 {
            let (text, suffix) = &comps[0];
            line = format!("{}{}", &typed[..start], text);
            match suffix {
                None => line.push(' '),
                Some('\0') => {}
                Some(c) => line.push(*c),
            }
        }
        // a directory completed inside an open quote keeps the quote open (the user may go on with the next path
        // component): the user closes it with the quote character the completed word now starts with
        if for_dir && (CONTEXTS[ctx].starts_with("cd-") || variant >= 5) && comps.len() == 1 && !vh::parse_line(&line).is_complete {
            if let Some(q) = comps[0].0.chars().next().filter(|c| *c == '\'' || *c == '"') {
                line.push(q);
            }
        }
        let edited = line.clone();
        let li = vh::parse_line(&line);
        if !li.is_complete {
            return ("completed-line-not-accepted".to_string(), json!({"edited_line": edited}));
        }
        let mut line = vh::trim_multiline_prompts(&line);
        let mut sh = vh::Shell::new();
        sh.previous_cmd = "vh-argv PREVIOUS".to_string();
        vh::extend_bangbang(&sh, &mut line);
        let segs = plan::plan_line(&mut sh, &line);
        let cmdname = if for_dir { "cd" } else { "vh-argv" };
        let mut good = false;
        let mut observed = json!({"edited_line": edited, "segments": segs.len()});
        if segs.len() == 1 {
            if let Ok(p) = &segs[0] {
                observed["plan"] = p.to_json();
                if p.commands.len() == 1 && !p.background && p.envs.is_empty() && p.commands[0].redirects_to.is_empty() && p.commands[0].redirect_from.is_none() {
                    let mut argv = p.argv(0);
                    if let Some(v) = prev_arg {
                        if argv.len() == 3 && argv[1] == v {
                            argv.remove(1);
                        } else {
                            argv.clear();
                        }
                    }
                    if argv.len() == 2 && argv[0] == cmdname && (argv[1] == full || (for_dir && argv[1] == format!("{}/", full))) {
                        good = true;
                    }
                }
            } else if let Err(e) = &segs[0] {
                observed["plan_error"] = json!(e);
            }
        }
        if good {
            ("ok".to_string(), Value::Null)
        } else {
            ((if for_dir { "wrong-directory" } else { "wrong-argv" }).to_string(), observed)
        }
    });
    let _ = if for_dir { std::fs::remove_dir_all(&path) } else { std::fs::remove_file(&path) };
    // anything a wrongly quoted line may have created while being planned (e.g. a command substitution that ran)
    for d in [workdir.to_string(), dir.clone()] {
        if let Ok(rd) = std::fs::read_dir(&d) {
            for e in rd.flatten() {
                let p = e.path();
                let keep = p.is_dir() && ["sd", "home", "vdir", "s d"].contains(&e.file_name().to_string_lossy().as_ref()) && d == workdir;
                if !keep {
                    let _ = if p.is_dir() { std::fs::remove_dir_all(&p) } else { std::fs::remove_file(&p) };
                }
            }
        }
    }
    match res {
        Ok(v) => v,
        Err(p) => ("panic".to_string(), json!(p)),
    }
}

fn worker_dir(scratch: &str) -> String {
    let d = format!("{}/c20w-{}", scratch, std::process::id());
    if std::env::current_dir().map(|c| c.to_string_lossy() != d.as_str()).unwrap_or(true) {
        std::fs::create_dir_all(&d).unwrap();
        std::env::set_current_dir(&d).unwrap();
    }
    d
}

fn run_case_in(c: &Case, acc: &mut Acc, scratch: &str) {
    acc.eval();
    acc.nontrivial();
    let d = worker_dir(scratch);
    let (kind, observed) = verdict_variant(c.ctx, &c.name, &d, c.loc, c.variant);
    if kind == "skipped" {
        return;
    }
    if kind == "ok" {
        acc.outcome(&format!("ok:inprocess:{}:{}", CONTEXTS[c.ctx], LOCATIONS[c.loc].0));
        acc.state(&format!("{}|ok", CONTEXTS[c.ctx]));
        acc.sample(c.repr());
    } else {
        acc.outcome(&format!("deviation:inprocess:{}", kind));
        acc.state(&format!("{}|{}", CONTEXTS[c.ctx], kind));
        let mut locs = if c.loc == 0 { String::new() } else { format!(":in-{}", LOCATIONS[c.loc].0) };
        if c.variant != 0 {
            locs.push_str(&format!(":{}", VARIANTS[c.variant]));
        }
        acc.violation(&format!("{}:{}{}:[{}]", kind, CONTEXTS[c.ctx], locs, name_class(&c.name)), c.repr(), json!({"argv": [format!("PREFIX{}", c.name)]}), observed);
    }
}

/// Candidate sets: for every population (subset of the entries below) and every typed prefix, the candidates offered
/// are exactly the entries whose name starts with the prefix (directories only for `cd`).
const POP: [(&str, bool); 9] = [("pa1", false), ("pa 2", false), ("pb", false), ("qx", false), ("pad", true), ("qd", true), (".pah", false), ("xpa", false), ("PA3", false)];
const TYPED: [&str; 7] = ["p", "pa", "q", "", ".p", "P", "pa\\ "];

#[derive(Clone)]
pub struct CandCase {
    mask: u32,
    typed: usize,
    for_dir: bool,
}

impl CaseRepr for CandCase {
    fn repr(&self) -> Value {
        let pop: Vec<&str> = (0..POP.len()).filter(|i| self.mask & (1 << i) != 0).map(|i| POP[i].0).collect();
        json!({"entries": pop, "typed": TYPED[self.typed], "command": if self.for_dir { "cd" } else { "other" }})
    }
}

fn run_cand_case(c: &CandCase, acc: &mut Acc, scratch: &str) {
    acc.eval();
    let d = format!("{}/c20cand-{}", scratch, std::process::id());
    let _ = std::fs::remove_dir_all(&d);
    std::fs::create_dir_all(&d).unwrap();
    std::env::set_current_dir(&d).unwrap();
    let mut expected: Vec<String> = Vec::new();
    let prefix = TYPED[c.typed].replace("\\ ", " ");
    for (i, (name, is_dir)) in POP.iter().enumerate() {
        if c.mask & (1 << i) == 0 {
            continue;
        }
        if *is_dir {
            std::fs::create_dir(format!("{}/{}", d, name)).unwrap();
        } else {
            std::fs::write(format!("{}/{}", d, name), b"x").unwrap();
        }
        if name.starts_with(&prefix) && (*is_dir || !c.for_dir) {
            expected.push(name.to_string());
        }
    }
    expected.sort();
    let res = explore::guarded(|| {
        let mut got: Vec<String> = vh::complete_path(TYPED[c.typed], c.for_dir)
            .into_iter()
            .map(|(text, _)| {
                // read the completion text back as the line parser would
                let li = vh::parse_line(&text);
                li.tokens.first().map(|t| t.1.trim_end_matches('/').to_string()).unwrap_or_default()
            })
            .collect();
        got.sort();
        got
    });
    std::env::set_current_dir("/").unwrap();
    let _ = std::fs::remove_dir_all(&d);
    match res {
        Ok(got) if got == expected => {
            if !expected.is_empty() {
                acc.nontrivial();
            }
            acc.outcome("ok:candidates");
            acc.state(&format!("cand|{}|{}", expected.len(), TYPED[c.typed]));
        }
        Ok(got) => {
            acc.outcome("deviation:candidates");
            let kind = if got.len() > expected.len() { "extra" } else if got.len() < expected.len() { "missing" } else { "different" };
            acc.violation(&format!("candidates:{}:{}:typed[{}]", if c.for_dir { "cd" } else { "other" }, kind, TYPED[c.typed]), c.repr(), json!({"candidates": expected}), json!({"candidates": got}));
        }
        Err(p) => {
            acc.outcome("deviation:panic");
            acc.violation("candidates:panic", c.repr(), json!({"candidates": expected}), json!(p));
        }
    }
}

pub fn run(ctx: &Ctx) -> Value {
    let helpers = ctx.args.first().cloned().unwrap_or_else(|| "/verif/target/helpers".to_string());
    let home = format!("{}/c20home", ctx.scratch);
    std::fs::create_dir_all(&home).unwrap();
    std::env::set_var("PATH", format!("{}:/usr/bin:/bin", helpers));
    std::env::set_var("HOME", &home);
    std::env::set_var("VH_LOG", format!("{}/vh.log", home));
    std::env::set_var("VH_DIR", &home);
    let maxlen: usize = if ctx.thorough() { 4 } else { 3 };
    let scratch = ctx.scratch.clone();

    // 1. conformance: recompute every verdict of the pty layer
    let mut conf_checked = 0u64;
    let mut mismatches: Vec<Value> = Vec::new();
    if let Some(vfile) = ctx.args.get(1) {
        if let Ok(text) = std::fs::read_to_string(vfile) {
            let list: Vec<(String, String, String, usize, usize)> = serde_json::from_str(&text).unwrap_or_default();
            let d = worker_dir(&scratch);
            for (c, name, pty_kind, loc, variant) in list {
                let ci = match c.as_str() { "U" => 0, "S" => 1, "D" => 2, "CS" => 4, "CD" => 5, _ => 3 };
                let (kind, observed) = verdict_variant(ci, &name, &d, loc, variant);
                if kind == "skipped" {
                    continue;
                }
                conf_checked += 1;
                if (kind == "ok") != (pty_kind == "ok") {
                    if mismatches.len() < 20 {
                        mismatches.push(json!({"context": CONTEXTS[ci], "location": LOCATIONS[loc].0, "also_on_the_line": VARIANTS[variant], "name": name, "real_editor": pty_kind, "in_process": kind, "observed": observed}));
                    } else {
                        mismatches.push(Value::Null);
                    }
                }
            }
            std::env::set_current_dir("/").unwrap();
        }
    }

    // 2. every name up to the bound in every context
    let deadline = Instant::now() + Duration::from_secs(if ctx.thorough() { 1500 } else { 60 });
    let opts = SweepOpts {
        workers: ctx.workers,
        case_limit: Duration::from_secs(5),
        deadline: Some(deadline),
        scratch: ctx.scratch.clone(),
        label: "c20".into(),
        samples_per_worker: 1,
    };
    let mut total = SweepResult::default();
    let mut levels = Vec::new();
    for len in 1..=maxlen {
        let t = Instant::now();
        let sc = scratch.clone();
        let gen = move || -> Box<dyn Iterator<Item = Case>> {
            // names of length <= 2 in every location, longer ones in the working directory only
            let nloc = if len <= 2 { LOCATIONS.len() } else { 1 };
            Box::new(explore::strings_of_len(&ALPHA, len).flat_map(move |name| {
                (0..CONTEXTS.len()).flat_map(move |ctx| {
                    let name = name.clone();
                    let name2 = name.clone();
                    let name3 = name.clone();
                    // every location with nothing else on the line; in the working directory also the line variants
                    (0..nloc).map(move |loc| Case { ctx, name: name.clone(), loc, variant: 0 })
                        .chain((1..(if nloc > 1 { VARIANTS.len() } else { 1 })).map(move |variant| Case { ctx, name: name2.clone(), loc: 0, variant }))
                        // (names of length 3, unquoted: the no-letter-prefix variant as well)
                        .chain((if nloc > 1 || ctx != 0 { 0..0 } else { 6..VARIANTS.len() }).map({ let n3 = name3.clone(); move |variant| Case { ctx, name: n3.clone(), loc: 0, variant } }))
                })
            }))
        };
        let r = explore::par_sweep(gen, move |c: &Case, acc: &mut Acc| run_case_in(c, acc, &sc), &opts);
        levels.push(json!({"layer": "in-process completion + plan", "name_length": len, "cases": r.cases, "complete": !r.capped, "wall_s": t.elapsed().as_secs_f64()}));
        let capped = r.capped;
        total.merge(r);
        if capped {
            break;
        }
    }
    // candidate sets
    {
        let t = Instant::now();
        let sc = scratch.clone();
        let gen = move || -> Box<dyn Iterator<Item = CandCase>> {
            Box::new((0..(1u32 << POP.len())).flat_map(|mask| (0..TYPED.len()).flat_map(move |typed| [false, true].into_iter().map(move |for_dir| CandCase { mask, typed, for_dir }))))
        };
        let r = explore::par_sweep(gen, move |c: &CandCase, acc: &mut Acc| run_cand_case(c, acc, &sc), &opts);
        levels.push(json!({"layer": "candidate sets: every subset of 9 entries (files, directories, hidden, name containing the prefix, other case) x 7 typed prefixes x {cd, other}", "cases": r.cases, "complete": !r.capped, "wall_s": t.elapsed().as_secs_f64()}));
        total.merge(r);
    }
    let mut out = total.to_json();
    out["levels"] = json!(levels);
    out["conformance"] = json!({"checked": conf_checked, "mismatches": mismatches.len(), "examples": mismatches.into_iter().filter(|m| !m.is_null()).collect::<Vec<_>>()});
    out
}
