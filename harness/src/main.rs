//! vcheck — in-process exploration engines for the cicada properties.
//! usage: vcheck <PROP> <quick|thorough> <out.json> <scratch-dir> [workers]
mod explore;
mod plan;
mod props;

use serde_json::{json, Value};
use std::time::Instant;

pub struct Ctx {
    pub tier: String,
    pub scratch: String,
    pub workers: usize,
    pub t0: Instant,
    pub args: Vec<String>,
}

impl Ctx {
    pub fn thorough(&self) -> bool {
        self.tier == "thorough"
    }
}

fn main() {
    let args: Vec<String> = std::env::args().collect();
    if args.len() < 5 {
        eprintln!("usage: vcheck <PROP> <quick|thorough> <out.json> <scratch-dir> [workers] [extra...]");
        std::process::exit(2);
    }
    let prop = args[1].clone();
    let ctx = Ctx {
        tier: args[2].clone(),
        scratch: args[4].clone(),
        workers: args.get(5).and_then(|s| s.parse().ok()).unwrap_or(14),
        t0: Instant::now(),
        args: args[6.min(args.len())..].to_vec(),
    };
    std::fs::create_dir_all(&ctx.scratch).expect("scratch dir");
    // same process-level initialisation as cicada's main()
    unsafe {
        libc::signal(libc::SIGPIPE, libc::SIG_DFL);
        libc::signal(libc::SIGTSTP, libc::SIG_IGN);
        libc::signal(libc::SIGQUIT, libc::SIG_IGN);
    }
    let result: Value = match prop.as_str() {
        "C01" => props::c01::run(&ctx),
        "C05" => props::c05::run(&ctx),
        "C06" => props::c06::run(&ctx),
        "C10" => props::c10::run(&ctx),
        "C12" => props::c12::run(&ctx),
        "C13" => props::c13::run(&ctx),
        "C16" => props::c16::run(&ctx),
        "C19" => props::c19::run(&ctx),
        "C20" => props::c20::run(&ctx),
        _ => {
            eprintln!("vcheck: no in-process engine for {}", prop);
            std::process::exit(2);
        }
    };
    let mut out = result;
    out["wall_s"] = json!(ctx.t0.elapsed().as_secs_f64());
    std::fs::write(&args[3], serde_json::to_string_pretty(&out).unwrap()).expect("write result");
}
