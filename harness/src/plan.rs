//! A plain, comparable view of what cicada plans to run for one command
//! (`CommandLine::from_line`): argv with quote tags, redirections, prefix
//! assignments and the background flag.
use cicada::verif_hooks as vh;
use serde_json::{json, Value};

#[derive(Debug, Clone, PartialEq, Eq)]
pub struct CmdView {
    pub tokens: Vec<(String, String)>,
    pub redirects_to: Vec<(String, String, String)>,
    pub redirect_from: Option<(String, String)>,
}

#[derive(Debug, Clone, PartialEq, Eq)]
pub struct PlanView {
    pub commands: Vec<CmdView>,
    pub envs: Vec<(String, String)>,
    pub background: bool,
}

impl PlanView {
    pub fn argv(&self, i: usize) -> Vec<String> {
        self.commands[i].tokens.iter().map(|t| t.1.clone()).collect()
    }
    pub fn to_json(&self) -> Value {
        let cmds: Vec<Value> = self
            .commands
            .iter()
            .map(|c| json!({"tokens": c.tokens, "redirects_to": c.redirects_to, "redirect_from": c.redirect_from}))
            .collect();
        json!({"commands": cmds, "envs": self.envs, "background": self.background})
    }
}

pub fn plan(sh: &mut vh::Shell, line: &str) -> Result<PlanView, String> {
    let cl = vh::command_line_from_line(line, sh)?;
    let mut envs: Vec<(String, String)> = cl.envs.iter().map(|(k, v)| (k.clone(), v.clone())).collect();
    envs.sort();
    Ok(PlanView {
        commands: cl
            .commands
            .iter()
            .map(|c| CmdView {
                tokens: c.tokens.clone(),
                redirects_to: c.redirects_to.clone(),
                redirect_from: c.redirect_from.clone(),
            })
            .collect(),
        envs,
        background: cl.background,
    })
}

/// The whole line as the `-c` / prompt path sees it: list-split, then planned.
pub fn plan_line(sh: &mut vh::Shell, line: &str) -> Vec<Result<PlanView, String>> {
    let mut out = Vec::new();
    for seg in vh::line_to_cmds(line) {
        if seg == ";" || seg == "&&" || seg == "||" {
            out.push(Err(format!("OP {}", seg)));
        } else {
            out.push(plan(sh, &seg));
        }
    }
    out
}
