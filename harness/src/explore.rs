//! Bounded-exhaustive sweep engine (E1): every case of a finite, explicitly
//! enumerated space is run through the real code in forked worker processes.
//!
//! * parallel: W single-threaded workers, worker k takes cases idx % W == k;
//! * panics are caught per case (`catch_unwind`) and reported as violations;
//! * hangs / aborts: a supervisor watches a shared-memory progress slot per
//!   worker; a worker stuck on one case longer than the limit is killed, the
//!   case is re-run alone with a 6x limit and reported as `hang` only if it is
//!   stuck again; a worker that dies (abort, stack overflow) is reported as
//!   `abort` on the case it was running; the slice continues after the case;
//! * results are streamed as JSON lines (violations, periodic counter
//!   checkpoints) so that nothing is lost when a worker has to be killed.
use serde_json::{json, Value};
use std::collections::{BTreeMap, BTreeSet};
use std::fs::{File, OpenOptions};
use std::io::{BufRead, BufReader, Write};
use std::panic::{self, AssertUnwindSafe};
use std::sync::atomic::{AtomicU64, Ordering};
use std::time::{Duration, Instant};

pub const MAX_WITNESSES_PER_SIG: u64 = 3;

thread_local! {
    static LAST_PANIC: std::cell::RefCell<String> = std::cell::RefCell::new(String::new());
}

pub fn install_quiet_panic_hook() {
    panic::set_hook(Box::new(|info| {
        let loc = info
            .location()
            .map(|l| {
                let f = l.file();
                let f = f.rsplit("/src/").next().unwrap_or(f);
                format!("{}:{}", f, l.line())
            })
            .unwrap_or_else(|| "?".to_string());
        let msg = if let Some(s) = info.payload().downcast_ref::<&str>() {
            s.to_string()
        } else if let Some(s) = info.payload().downcast_ref::<String>() {
            s.clone()
        } else {
            String::new()
        };
        LAST_PANIC.with(|c| *c.borrow_mut() = format!("{} {}", loc, msg));
    }));
}

pub fn take_last_panic() -> String {
    LAST_PANIC.with(|c| std::mem::take(&mut *c.borrow_mut()))
}

/// Run `f`, converting a panic into Err(location + message).
pub fn guarded<T>(f: impl FnOnce() -> T) -> Result<T, String> {
    match panic::catch_unwind(AssertUnwindSafe(f)) {
        Ok(v) => Ok(v),
        Err(_) => Err(take_last_panic()),
    }
}

/// Per-worker accumulator handed to the case function.
pub struct Acc {
    out: File,
    pub idx: u64,
    evals: u64,
    nontrivial: u64,
    transitions: u64,
    outcomes: BTreeMap<String, u64>,
    states: BTreeSet<u64>,
    viol_counts: BTreeMap<String, u64>,
    samples_left: u32,
    last_ckpt: Instant,
    ckpt_from: u64,
}

fn fnv(s: &[u8]) -> u64 {
    let mut h: u64 = 0xcbf29ce484222325;
    for b in s {
        h ^= *b as u64;
        h = h.wrapping_mul(0x100000001b3);
    }
    h
}

impl Acc {
    pub fn eval(&mut self) {
        self.evals += 1;
    }
    pub fn evals_add(&mut self, n: u64) {
        self.evals += n;
    }
    pub fn transition(&mut self, n: u64) {
        self.transitions += n;
    }
    pub fn nontrivial(&mut self) {
        self.nontrivial += 1;
    }
    /// a coarse outcome class (anti-vacuity: many classes must be seen)
    pub fn outcome(&mut self, class: &str) {
        *self.outcomes.entry(class.to_string()).or_insert(0) += 1;
    }
    /// a distinct observation vector (counted as a "state")
    pub fn state(&mut self, repr: &str) {
        self.states.insert(fnv(repr.as_bytes()));
    }
    pub fn sample(&mut self, v: Value) {
        if self.samples_left > 0 {
            self.samples_left -= 1;
            let _ = writeln!(self.out, "{}", json!({"t":"s","idx":self.idx,"sample":v}));
        }
    }
    pub fn violation(&mut self, sig: &str, case: Value, expected: Value, observed: Value) {
        let n = self.viol_counts.entry(sig.to_string()).or_insert(0);
        *n += 1;
        if *n <= MAX_WITNESSES_PER_SIG {
            let _ = writeln!(
                self.out,
                "{}",
                json!({"t":"v","idx":self.idx,"sig":sig,"case":case,"expected":expected,"observed":observed})
            );
        }
    }
    fn checkpoint(&mut self, upto: u64) {
        let states: Vec<u64> = self.states.iter().copied().collect();
        let _ = writeln!(
            self.out,
            "{}",
            json!({"t":"c","from":self.ckpt_from,"to":upto,"evals":self.evals,"nontrivial":self.nontrivial,
                   "transitions":self.transitions,"outcomes":self.outcomes,"states":states,"viol":self.viol_counts})
        );
        let _ = self.out.flush();
        self.evals = 0;
        self.nontrivial = 0;
        self.transitions = 0;
        self.outcomes.clear();
        self.states.clear();
        self.viol_counts.clear();
        self.ckpt_from = upto;
        self.last_ckpt = Instant::now();
    }
}

struct Shared {
    base: *mut AtomicU64,
}
const SLOT: usize = 4; // cur_idx+1 (0 = idle), started_ms, ckpt_idx, done

impl Shared {
    fn new(workers: usize) -> Shared {
        let len = workers * SLOT * 8;
        let p = unsafe {
            libc::mmap(
                std::ptr::null_mut(),
                len,
                libc::PROT_READ | libc::PROT_WRITE,
                libc::MAP_SHARED | libc::MAP_ANONYMOUS,
                -1,
                0,
            )
        };
        assert!(p != libc::MAP_FAILED);
        Shared { base: p as *mut AtomicU64 }
    }
    fn at(&self, w: usize, f: usize) -> &AtomicU64 {
        unsafe { &*self.base.add(w * SLOT + f) }
    }
}

fn now_ms(t0: Instant) -> u64 {
    t0.elapsed().as_millis() as u64
}

pub struct SweepOpts {
    pub workers: usize,
    pub case_limit: Duration,
    /// stop starting new work after this instant (the level is then reported as capped)
    pub deadline: Option<Instant>,
    pub scratch: String,
    pub label: String,
    pub samples_per_worker: u32,
}

#[derive(Default, Debug)]
pub struct SweepResult {
    pub cases: u64,
    pub evals: u64,
    pub nontrivial: u64,
    pub transitions: u64,
    pub outcomes: BTreeMap<String, u64>,
    pub states: BTreeSet<u64>,
    pub viol_counts: BTreeMap<String, u64>,
    pub witnesses: BTreeMap<String, Vec<Value>>,
    pub samples: Vec<Value>,
    pub capped: bool,
    pub machinery_errors: Vec<String>,
}

impl SweepResult {
    pub fn merge(&mut self, o: SweepResult) {
        self.cases += o.cases;
        self.evals += o.evals;
        self.nontrivial += o.nontrivial;
        self.transitions += o.transitions;
        for (k, v) in o.outcomes {
            *self.outcomes.entry(k).or_insert(0) += v;
        }
        self.states.extend(o.states);
        for (k, v) in o.viol_counts {
            *self.viol_counts.entry(k).or_insert(0) += v;
        }
        for (k, mut v) in o.witnesses {
            let e = self.witnesses.entry(k).or_default();
            if (e.len() as u64) < MAX_WITNESSES_PER_SIG {
                e.append(&mut v);
                e.truncate(MAX_WITNESSES_PER_SIG as usize);
            }
        }
        if self.samples.len() < 12 {
            self.samples.extend(o.samples);
            self.samples.truncate(12);
        }
        self.capped |= o.capped;
        self.machinery_errors.extend(o.machinery_errors);
    }
    pub fn to_json(&self) -> Value {
        let viol: Vec<Value> = self
            .viol_counts
            .iter()
            .map(|(sig, n)| json!({"sig":sig,"count":n,"witnesses":self.witnesses.get(sig).cloned().unwrap_or_default()}))
            .collect();
        json!({
            "cases": self.cases, "evaluations": self.evals, "nontrivial": self.nontrivial,
            "transitions": self.transitions, "states": self.states.len(),
            "outcomes": self.outcomes, "violations": viol, "samples": self.samples,
            "capped": self.capped, "machinery_errors": self.machinery_errors,
        })
    }
}

fn redirect_stdio_to_devnull() {
    unsafe {
        let fd = libc::open(b"/dev/null\0".as_ptr() as *const libc::c_char, libc::O_RDWR);
        if fd >= 0 {
            libc::dup2(fd, 0);
            libc::dup2(fd, 1);
            libc::dup2(fd, 2);
            if fd > 2 {
                libc::close(fd);
            }
        }
    }
}

fn worker_main<C, G, F>(
    k: usize,
    nworkers: usize,
    start: u64,
    skip: &BTreeSet<u64>,
    only: Option<u64>,
    shared: &Shared,
    t0: Instant,
    outpath: &str,
    gen: &G,
    f: &F,
    opts: &SweepOpts,
)
where
    G: Fn() -> Box<dyn Iterator<Item = C>>,
    F: Fn(&C, &mut Acc),
    C: CaseRepr,
{
    redirect_stdio_to_devnull();
    unsafe {
        // die with the supervisor
        libc::prctl(libc::PR_SET_PDEATHSIG, libc::SIGKILL);
    }
    install_quiet_panic_hook();
    let out = OpenOptions::new().append(true).create(true).open(outpath).expect("open worker out");
    let mut acc = Acc {
        out,
        idx: 0,
        evals: 0,
        nontrivial: 0,
        transitions: 0,
        outcomes: BTreeMap::new(),
        states: BTreeSet::new(),
        viol_counts: BTreeMap::new(),
        samples_left: if only.is_some() { 0 } else { opts.samples_per_worker },
        last_ckpt: Instant::now(),
        ckpt_from: start,
    };
    let mut capped = false;
    let mut total_seen: u64 = 0;
    for (i, case) in gen().enumerate() {
        let idx = i as u64;
        total_seen = idx + 1;
        if idx % (nworkers as u64) != k as u64 || idx < start || skip.contains(&idx) {
            continue;
        }
        if let Some(o) = only {
            if idx != o {
                continue;
            }
        }
        if let Some(d) = opts.deadline {
            if only.is_none() && Instant::now() > d {
                capped = true;
                break;
            }
        }
        acc.idx = idx;
        shared.at(k, 1).store(now_ms(t0), Ordering::SeqCst);
        shared.at(k, 0).store(idx + 1, Ordering::SeqCst);
        let r = panic::catch_unwind(AssertUnwindSafe(|| f(&case, &mut acc)));
        if r.is_err() {
            let p = take_last_panic();
            let loc = p.split(' ').next().unwrap_or("?").to_string();
            acc.violation(&format!("panic@{}", loc), case.repr(), json!("no panic"), json!(p));
        }
        shared.at(k, 0).store(0, Ordering::SeqCst);
        if only.is_some() {
            break;
        }
        if acc.last_ckpt.elapsed() > Duration::from_millis(200) {
            acc.checkpoint(idx + 1);
            shared.at(k, 2).store(idx + 1, Ordering::SeqCst);
        }
    }
    if only.is_none() {
        acc.checkpoint(u64::MAX);
        let _ = writeln!(acc.out, "{}", json!({"t":"end","capped":capped,"total":total_seen}));
    } else {
        let _ = writeln!(acc.out, "{}", json!({"t":"only_done"}));
    }
    let _ = acc.out.flush();
    shared.at(k, 3).store(1, Ordering::SeqCst);
    unsafe { libc::_exit(0) }
}

pub trait CaseRepr {
    fn repr(&self) -> Value;
}
impl CaseRepr for String {
    fn repr(&self) -> Value {
        json!({ "line": self })
    }
}
impl CaseRepr for Value {
    fn repr(&self) -> Value {
        self.clone()
    }
}

fn fork_worker(body: impl FnOnce()) -> i32 {
    let pid = unsafe { libc::fork() };
    if pid == 0 {
        body();
        unsafe { libc::_exit(0) }
    }
    assert!(pid > 0, "fork failed");
    pid
}

/// Returns Some(exit_ok) if the child terminated.
fn try_reap(pid: i32) -> Option<bool> {
    let mut st: i32 = 0;
    let r = unsafe { libc::waitpid(pid, &mut st, libc::WNOHANG) };
    if r == pid {
        Some(libc::WIFEXITED(st) && libc::WEXITSTATUS(st) == 0)
    } else {
        None
    }
}

fn kill_and_reap(pid: i32) {
    unsafe {
        libc::kill(pid, libc::SIGKILL);
        let mut st: i32 = 0;
        libc::waitpid(pid, &mut st, 0);
    }
}

fn nth_case<C, G>(gen: &G, idx: u64) -> Option<C>
where
    G: Fn() -> Box<dyn Iterator<Item = C>>,
{
    gen().nth(idx as usize)
}

/// Run every case produced by `gen` through `f`.
pub fn par_sweep<C, G, F>(gen: G, f: F, opts: &SweepOpts) -> SweepResult
where
    G: Fn() -> Box<dyn Iterator<Item = C>>,
    F: Fn(&C, &mut Acc),
    C: CaseRepr,
{
    let w = opts.workers.max(1);
    let shared = Shared::new(w + 1); // last slot: confirm-runs
    let t0 = Instant::now();
    std::fs::create_dir_all(&opts.scratch).ok();
    let outpaths: Vec<String> = (0..=w).map(|k| format!("{}/sweep-{}-{}.jsonl", opts.scratch, opts.label, k)).collect();
    for p in &outpaths {
        let _ = std::fs::remove_file(p);
    }
    let mut res = SweepResult::default();
    let mut skip: Vec<BTreeSet<u64>> = vec![BTreeSet::new(); w];
    let mut pids: Vec<i32> = vec![0; w];
    let mut done: Vec<bool> = vec![false; w];
    let mut suspects: Vec<(u64, &'static str)> = Vec::new(); // (idx, "hang"/"abort")
    for k in 0..w {
        let (sk, sh, op) = (&skip[k], &shared, &outpaths[k]);
        pids[k] = fork_worker(|| worker_main(k, w, 0, sk, None, sh, t0, op, &gen, &f, opts));
    }
    let limit_ms = opts.case_limit.as_millis() as u64;
    loop {
        if done.iter().all(|d| *d) {
            break;
        }
        std::thread::sleep(Duration::from_millis(20));
        for k in 0..w {
            if done[k] {
                continue;
            }
            if let Some(ok) = try_reap(pids[k]) {
                if ok && shared.at(k, 3).load(Ordering::SeqCst) == 1 {
                    done[k] = true;
                    continue;
                }
                // died abnormally while running a case
                let cur = shared.at(k, 0).load(Ordering::SeqCst);
                if cur == 0 {
                    res.machinery_errors.push(format!("worker {} died outside a case", k));
                    done[k] = true;
                    continue;
                }
                let idx = cur - 1;
                suspects.push((idx, "abort"));
                skip[k].insert(idx);
                let start = shared.at(k, 2).load(Ordering::SeqCst);
                shared.at(k, 0).store(0, Ordering::SeqCst);
                if suspects.len() > 200 {
                    res.machinery_errors.push("more than 200 hangs/aborts: sweep abandoned".to_string());
                    done[k] = true;
                    continue;
                }
                let (sk, sh, op) = (&skip[k], &shared, &outpaths[k]);
                pids[k] = fork_worker(|| worker_main(k, w, start, sk, None, sh, t0, op, &gen, &f, opts));
                continue;
            }
            let cur = shared.at(k, 0).load(Ordering::SeqCst);
            if cur != 0 {
                let started = shared.at(k, 1).load(Ordering::SeqCst);
                if now_ms(t0).saturating_sub(started) > limit_ms && shared.at(k, 0).load(Ordering::SeqCst) == cur {
                    kill_and_reap(pids[k]);
                    let idx = cur - 1;
                    suspects.push((idx, "hang"));
                    skip[k].insert(idx);
                    let start = shared.at(k, 2).load(Ordering::SeqCst);
                    shared.at(k, 0).store(0, Ordering::SeqCst);
                    if suspects.len() > 200 {
                        res.machinery_errors.push("more than 200 hangs/aborts: sweep abandoned".to_string());
                        done[k] = true;
                        continue;
                    }
                    let (sk, sh, op) = (&skip[k], &shared, &outpaths[k]);
                    pids[k] = fork_worker(|| worker_main(k, w, start, sk, None, sh, t0, op, &gen, &f, opts));
                }
            }
        }
    }
    // merge worker outputs (dedupe re-executed ranges: a checkpoint [from,to) is counted once)
    let mut seen_viol: BTreeSet<(u64, String)> = BTreeSet::new();
    for k in 0..w {
        let mut covered_upto: u64 = 0;
        let mut ended = false;
        if let Ok(fh) = File::open(&outpaths[k]) {
            for line in BufReader::new(fh).lines().map_while(Result::ok) {
                let v: Value = match serde_json::from_str(&line) {
                    Ok(v) => v,
                    Err(_) => continue,
                };
                match v["t"].as_str().unwrap_or("") {
                    "v" => {
                        let idx = v["idx"].as_u64().unwrap_or(0);
                        let sig = v["sig"].as_str().unwrap_or("").to_string();
                        if seen_viol.insert((idx, sig.clone())) {
                            let e = res.witnesses.entry(sig).or_default();
                            if (e.len() as u64) < MAX_WITNESSES_PER_SIG {
                                e.push(json!({"idx":idx,"case":v["case"],"expected":v["expected"],"observed":v["observed"]}));
                            }
                        }
                    }
                    "s" => {
                        if res.samples.len() < 12 {
                            res.samples.push(v["sample"].clone());
                        }
                    }
                    "c" => {
                        let from = v["from"].as_u64().unwrap_or(0);
                        let to = v["to"].as_u64().unwrap_or(u64::MAX);
                        if from < covered_upto {
                            // a re-executed range after a restart: restarts begin at the last
                            // checkpoint, so ranges never partially overlap
                            continue;
                        }
                        covered_upto = to;
                        res.evals += v["evals"].as_u64().unwrap_or(0);
                        res.nontrivial += v["nontrivial"].as_u64().unwrap_or(0);
                        res.transitions += v["transitions"].as_u64().unwrap_or(0);
                        if let Some(o) = v["outcomes"].as_object() {
                            for (kk, vv) in o {
                                *res.outcomes.entry(kk.clone()).or_insert(0) += vv.as_u64().unwrap_or(0);
                            }
                        }
                        if let Some(o) = v["viol"].as_object() {
                            for (kk, vv) in o {
                                *res.viol_counts.entry(kk.clone()).or_insert(0) += vv.as_u64().unwrap_or(0);
                            }
                        }
                        if let Some(a) = v["states"].as_array() {
                            for s in a {
                                if let Some(x) = s.as_u64() {
                                    res.states.insert(x);
                                }
                            }
                        }
                    }
                    "end" => {
                        ended = true;
                        if v["capped"].as_bool().unwrap_or(false) {
                            res.capped = true;
                        }
                        res.cases = res.cases.max(v["total"].as_u64().unwrap_or(0));
                    }
                    _ => {}
                }
            }
        }
        if !ended {
            res.machinery_errors.push(format!("worker {} produced no end record", k));
        }
    }
    // confirm suspects one at a time
    let confirm_limit = limit_ms * 4;
    let mut confirmed_by_kind: BTreeMap<String, u64> = BTreeMap::new();
    for (idx, kind) in suspects {
        let case = match nth_case(&gen, idx) {
            Some(c) => c,
            None => continue,
        };
        let n_already = *confirmed_by_kind.get(kind).unwrap_or(&0);
        let sig;
        let observed;
        if n_already >= 5 {
            sig = kind.to_string();
            observed = json!(format!("{} (suspected; not re-confirmed, 5 cases of this kind already confirmed)", kind));
        } else {
            let kc = w; // confirm slot
            let empty = BTreeSet::new();
            shared.at(kc, 0).store(0, Ordering::SeqCst);
            shared.at(kc, 3).store(0, Ordering::SeqCst);
            let (sh, op) = (&shared, &outpaths[w]);
            let wk = (idx % (w as u64)) as usize;
            let pid = fork_worker(|| worker_main(wk, w, 0, &empty, Some(idx), sh, t0, op, &gen, &f, opts));
            let tstart = Instant::now();
            let mut outcome = "ok";
            loop {
                if let Some(ok) = try_reap(pid) {
                    if !ok {
                        outcome = "abort";
                    }
                    break;
                }
                if tstart.elapsed().as_millis() as u64 > confirm_limit {
                    kill_and_reap(pid);
                    outcome = "hang";
                    break;
                }
                std::thread::sleep(Duration::from_millis(10));
            }
            if outcome == "ok" {
                // not reproducible alone: inconclusive => machinery error, never a verdict
                res.machinery_errors.push(format!("case {} suspected {} but completed when re-run alone: {}", idx, kind, case.repr()));
                continue;
            }
            *confirmed_by_kind.entry(kind.to_string()).or_insert(0) += 1;
            sig = outcome.to_string();
            observed = json!(format!("{} confirmed (limit {} ms alone)", outcome, confirm_limit));
        }
        *res.viol_counts.entry(sig.clone()).or_insert(0) += 1;
        let e = res.witnesses.entry(sig).or_default();
        if (e.len() as u64) < MAX_WITNESSES_PER_SIG {
            e.push(json!({"idx":idx,"case":case.repr(),"expected":"terminates without crashing","observed":observed}));
        }
    }
    // violations found in confirm runs (e.g. a panic that only shows alone) are merged too
    if let Ok(fh) = File::open(&outpaths[w]) {
        for line in BufReader::new(fh).lines().map_while(Result::ok) {
            if let Ok(v) = serde_json::from_str::<Value>(&line) {
                if v["t"] == "v" {
                    let idx = v["idx"].as_u64().unwrap_or(0);
                    let sig = v["sig"].as_str().unwrap_or("").to_string();
                    if seen_viol.insert((idx, sig.clone())) {
                        *res.viol_counts.entry(sig.clone()).or_insert(0) += 1;
                        let e = res.witnesses.entry(sig).or_default();
                        if (e.len() as u64) < MAX_WITNESSES_PER_SIG {
                            e.push(json!({"idx":idx,"case":v["case"],"expected":v["expected"],"observed":v["observed"]}));
                        }
                    }
                }
            }
        }
    }
    for p in &outpaths {
        let _ = std::fs::remove_file(p);
    }
    res
}

/// All strings of exactly `len` symbols over `alphabet`, in lexicographic order of symbol indices (lazy).
pub fn strings_of_len(alphabet: &[&str], len: usize) -> Box<dyn Iterator<Item = String>> {
    let alpha: Vec<String> = alphabet.iter().map(|s| s.to_string()).collect();
    let n = alpha.len();
    let total: u64 = (n as u64).pow(len as u32);
    Box::new((0..total).map(move |mut x| {
        let mut idxs = vec![0usize; len];
        for p in (0..len).rev() {
            idxs[p] = (x % n as u64) as usize;
            x /= n as u64;
        }
        let mut s = String::new();
        for i in idxs {
            s.push_str(&alpha[i]);
        }
        s
    }))
}

/// All strings of length lo..=hi, shortest first (lazy).
pub fn strings_upto(alphabet: &[&str], lo: usize, hi: usize) -> Box<dyn Iterator<Item = String>> {
    let alpha: Vec<String> = alphabet.iter().map(|s| s.to_string()).collect();
    Box::new((lo..=hi).flat_map(move |l| {
        let a: Vec<&str> = alpha.iter().map(|s| s.as_str()).collect();
        strings_of_len(&a, l)
    }))
}
