#!/bin/bash
# usage: tools/confirm_seeded.sh <seeded-id>...   confirms in a scratch worktree that the change compiles, the repository
# suite passes with it, and the demonstration fails with it and passes without. Appends the result to seeded/<id>/confirm.txt
export CARGO_NET_OFFLINE=true
WT=/tmp/confirm-wt
TD=/tmp/confirm-target
for id in "$@"; do
  S=/verif/seeded/$id
  git -C /repo worktree remove --force $WT 2>/dev/null
  git -C /repo worktree add -q --detach $WT HEAD || exit 2
  cd $WT
  {
    echo "== $(date -u +%FT%TZ) confirm $id on /repo $(git -C /repo rev-parse --short HEAD)"
    CARGO_TARGET_DIR=$TD cargo build --offline -j 6 -q 2>/dev/null && cp $TD/debug/cicada /tmp/confirm-cicada-orig && echo "unchanged: build ok"
    if [ -f $S/demo.sh ]; then (cd $S && timeout 300 bash ./demo.sh /tmp/confirm-cicada-orig) >/dev/null 2>&1 < /dev/null; echo "demo on unchanged binary: exit $?"; fi
    git apply $S/patch.diff && echo "patch applies"
    CARGO_TARGET_DIR=$TD cargo build --offline -j 6 -q 2>/dev/null && echo "changed: build ok"
    CARGO_TARGET_DIR=$TD cargo test --workspace --offline -j 6 2>&1 < /dev/null | grep -E "^test result|FAILED|failed" | tr '\n' ' '; echo
    if [ -f $S/demo.sh ]; then (cd $S && timeout 300 bash ./demo.sh $TD/debug/cicada) >/dev/null 2>&1 < /dev/null; echo "demo on changed binary: exit $?"; fi
  } >> $S/confirm.txt 2>&1
  cd /
  git -C /repo worktree remove --force $WT
done
rm -rf $TD /tmp/confirm-cicada-orig
