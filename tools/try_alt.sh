#!/bin/bash
# usage: tools/try_alt.sh <patch.diff> <PROP> [<PROP>...]
# Like try_mutant.sh, but leaves /repo alone: the patch is applied to a scratch worktree (/tmp/alt-wt) and the quick checks
# run against it through VC_ALT with their own build / evidence / replay directories (/tmp/alt-out), so this can run while
# other checks of /repo are running. One at a time. The scratch worktree is removed afterwards; /tmp/alt-out/target is kept
# between calls for incremental builds (remove it when done: rm -rf /tmp/alt-out).
set -u
patch="$(readlink -f "$1")"; shift
WT=/tmp/alt-wt; OUT=/tmp/alt-out
git -C /repo worktree remove --force $WT 2>/dev/null
git -C /repo worktree add -q --detach $WT HEAD || exit 2
trap 'git -C /repo worktree remove --force $WT' EXIT
if [ "$patch" != "/dev/null" ]; then git -C $WT apply "$patch" || { echo "patch does not apply"; exit 2; }; fi
mkdir -p $OUT
cd /verif
for p in "$@"; do
  out=$(VC_ALT=$WT:$OUT ./check "$p" ${TIER:-quick} 2>&1 < /dev/null); r=$?
  nv=$(echo "$out" | grep -c '^VIOLATION')
  echo "== $p rc=$r violations=$nv"
  echo "$out" | grep -E '^VIOLATION|signature=|MACHINERY|KNOWN-FINDING' | head -${SHOW:-6} | cut -c1-300
done
