#!/bin/bash
# usage: tools/selftest_seeded.sh [<seeded-id>...]   applies every seeded change to /repo in turn, runs the quick check of its
# property, expects a VIOLATION (exit 1), reverts. Prints one line per change; exit 0 iff every change is detected.
cd /verif || exit 2
ids="$@"; [ -z "$ids" ] && ids=$(ls seeded | grep -E "^C[0-9]+-[0-9]+$")
fail=0
for id in $ids; do
  prop=$(python3 -c "import json;print(json.load(open('seeded/$id/meta.json'))['property'])")
  if python3 -c "import json,sys;sys.exit(0 if json.load(open('seeded/$id/meta.json')).get('obsolete') else 1)"; then echo "$id: obsolete (no longer breaks the property on the repaired tree), skipped"; continue; fi
  if ! git -C /repo diff --quiet; then echo "/repo has local changes"; exit 2; fi
  if ! git -C /repo apply /verif/seeded/$id/patch.diff 2>/dev/null; then echo "$id: patch does not apply to /repo HEAD"; fail=1; continue; fi
  out=$(timeout 1800 ./check $prop quick 2>&1 < /dev/null); rc=$?
  git -C /repo checkout -- .
  nv=$(echo "$out" | grep -c '^VIOLATION')
  if [ $rc -eq 1 ] && [ $nv -gt 0 ]; then echo "$id: detected by $prop ($nv classes printed)"; else echo "$id: NOT detected by $prop (rc=$rc)"; fail=1; fi
done
exit $fail
