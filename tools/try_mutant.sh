#!/bin/bash
# usage: tools/try_mutant.sh <patch.diff> <PROP> [<PROP>...]   (applies the patch to /repo, runs the quick checks, reverts)
set -u
patch="$1"; shift
cd /repo || exit 2
if ! git diff --quiet; then echo "/repo has local changes"; exit 2; fi
git apply "$patch" || { echo "patch does not apply"; exit 2; }
trap 'git -C /repo checkout -- . ' EXIT
cd /verif
rc=0
for p in "$@"; do
  out=$(./check "$p" quick 2>&1 < /dev/null); r=$?
  nv=$(echo "$out" | grep -c '^VIOLATION')
  echo "== $p rc=$r violations=$nv"
  echo "$out" | grep -E '^VIOLATION|signature=|MACHINERY' | head -6 | cut -c1-300
done
