#!/usr/bin/env python3
"""Regenerates /verif/MANIFEST.json from the table below (kept in one place so that the
manifest is always valid and lists every property either as a check or as not_applicable)."""
import json
import os
import subprocess

ROOT = os.path.dirname(os.path.dirname(os.path.abspath(__file__)))

CHECKS = {
    'C01': dict(
        engine='E1 bounded-exhaustive input sweep (in-process plan) + real binary',
        technique='bounded-exhaustive enumeration of all argument texts x quoting styles x positions, planned by the real code and compared with the verbatim-argv reference; conformance replay of the small bound through the real binary',
        text='Every argument text up to length 3 (thorough: 4, 3.3 M plans) over a 34-symbol metacharacter alphabet in each quoting style of the statement and six position templates, all ordered pairs of texts of length <= 1 in all style pairs and all lists of 0..6 operator-like arguments are planned by the real CommandLine::from_line in an adversarial environment (matching files, variables, aliases); the plan must be the verbatim argv with no background flag, redirection or assignment. The length <= 1 cases and operator-like pairs are also executed by the real binary.',
        note='Texts longer than the bound and words mixing quoting styles are outside the bound; plan level is bound to execution by the replayed subset.',
        ref='DESIGN.md §4 C01'),
    'C02': dict(
        engine='E3 controlled-schedule exploration of the real binary (exit gates)',
        technique='exhaustive enumeration of all stage exit orders (all n! gate-release permutations) x payload sizes x stage kinds x endings on the real binary under a controlled scheduler (exit gates), no timing, no sampling',
        text='Every external stage is a helper that moves its data, closes its ends and blocks on a private exit gate; the explorer releases the gates in every permutation (n = 1..4: all 33 orders; thorough also all 120 orders of n = 5 and a seventh of n = 6), waiting for each released stage to be gone before the next, with payloads from 0 bytes to 4 pipe buffers, all vectors of stage kinds (copier, non-reader, builtin, failing, not-found) for n <= 3 and the exit codes / terminating signals of the last stage for n in {1,2}. Oracle: byte count and checksum at the sink, each stage started once, the shell returns only after every stage is gone (an early return is deterministic because unreleased gates keep stages alive), status of the last stage (128+signal), termination.',
        note='Exit order is forced, not timed; helpers see EPIPE instead of dying from SIGPIPE; a suspected hang is confirmed alone with a longer limit and three confirmed hangs stop the run (reported as cap).',
        ref='DESIGN.md §4 C02'),
    'C03': dict(
        engine='E1 bounded-exhaustive program enumeration on the real binary',
        technique='bounded-exhaustive enumeration of all operator/status programs up to a length, executed by the real binary and compared step by step with a reference interpreter (no sampling)',
        text='All programs p1 op ... pn with op in {; && ||} and statuses {0,1} up to n = 5 (thorough 6), all programs up to n = 2 (3) with statuses {0,1,2,255}, decoy variants with quoted/escaped operators, two-stage pipelines as members, and members of ten kinds (external, assignment only, builtin ok/failing, cd ok/failing, export, not found, pipeline ending in a builtin; all programs of up to 2 members over all kinds and of 3 over five (thorough all) kinds, with and without a final $? probe), run by the real binary with -c and as script files; the record sequence, every $? probe and the process exit status must equal a reference interpreter. Also: a member killed by a signal (128+n), operator spellings without blanks / with a trailing ; / with extra blanks, and decoys with escaped quotes.',
        note='Programs longer than the bound and the interactive entry point are outside; every pipeline is a recording helper program.',
        ref='DESIGN.md §4 C03'),
    'C04': dict(
        engine='E1 bounded-exhaustive enumeration of redirection sequences on the real binary',
        technique='bounded-exhaustive enumeration of all redirection sequences x commands x spellings x target states, executed by the real binary and compared with a reference descriptor-table model (open file descriptions, left-to-right application)',
        text='All sequences of up to 2 (thorough 3) redirections over {>f >>f 1>f 2>f 2>>f 2>&1 1>&2 >&2 <g <<<w} with two target files, spaced, attached and spaced with the target written as a quoted word, on an external program alone and as first/middle/last stage of a three-stage pipeline on the builtins alias (stdout), unalias (stderr) and read (stdin), and on an external program whose output is captured by "$(...)" (the capture pipe takes the place of stdout), with targets absent / present / unopenable, each followed by a command that must be unaffected, are executed by the real binary (1109 / ~11 k cases); file contents, bytes on the line stdout/stderr, stdin seen, status and not-started-on-unopenable must match the reference model.',
        note='Descriptors 1 and 2, two files; target states absent / present / unopenable / only the first target unopenable; at most one stdin redirection per command.',
        ref='DESIGN.md §4 C04'),
    'C05': dict(
        engine='E1 bounded-exhaustive input sweep (in-process) + real binary',
        technique='bounded-exhaustive enumeration of all input strings up to a length over explicit alphabets, run through the real code (explicit-state style exploration, no sampling)',
        text='Every string up to length 4 (thorough: 5-6) over two 14-symbol shell alphabets through every pure stage in-process, every string up to length 3-4 through planning under three variable environments (incl. self-referential values), every string up to length 5 (thorough: 6-7) over a fourth 8-symbol alphabet of brace groups and escapes through the pure stages and planning, every sequence of up to 4 (5) block-keyword script lines through grammar and interpreter, and every string up to length 3 (4) executed by the real binary; oracle: no panic, no abort, no confirmed hang, next command still runs. A third alphabet C mixes the characters of A and B that interact ($ { } quotes backslash parentheses * ~ blank). Real binary also: every builtin with boundary argument lists (non-numeric, huge, negative, option-like, empty words).',
        note='Alphabets and lengths are the bound; pty keystroke sequences are not covered; hang detection uses a time limit confirmed by an isolated re-run.',
        ref='DESIGN.md §4 C05'),
    'C06': dict(
        engine='E2 explicit-state BFS + E3 choice-prefix DFS over the real job-control code with a modelled kernel',
        technique='explicit-state model checking of the real job-control code (BFS with canonical-state dedup over prompt-level states, stateless choice-prefix DFS over every hooked waitpid call), environment = kernel wait model bound to the real kernel by trace replay',
        text='All interleavings of launches (fg/bg, 1..3 processes, non-ascending pids), stop/continue/exit/kill events delivered to a foreground wait or to the prompt poll, and fg/bg/jobs/empty-line actions are explored on the real Shell job table, wait_fg_job, try_wait_bg_jobs and handle_sigchld with waitpid answered by a kernel model, in the polling and in the SIGCHLD-handler configuration and with 0/1 deviations inside the non-blocking drain loop; quick completes event budget 3 with <= 4 processes (about 70 k states, 2.3 M transitions), thorough goes on to larger budgets with <= 6 processes. Oracles: smallest-unused unique job ids, wait returns exactly when every process of the job is reported dead or stopped with the last process status, the job list after `jobs` equals the live jobs with the right Stopped/Running state.',
        note='Kernel model validated against the real kernel for prompt-level traces (69+ traces); fg/bg glue is mirrored, not executed (needs a terminal; see C07); the completed event bound is reported in the evidence.',
        ref='DESIGN.md §4 C06, appendix B'),
    'C08': dict(
        engine='E2 explicit histories of command templates + E4 fault enumeration (RLIMIT_NOFILE), real binary',
        technique='exhaustive enumeration of all sequences of command templates up to a depth with the shell descriptor table observed after every step, plus exhaustive fault enumeration of every RLIMIT_NOFILE value x pipeline template on the real binary',
        text='All sequences of up to 2 (thorough 3) of 41 command templates (pipelines, every redirection form on externals and builtins, builtins alone and in pipelines, substitutions of externals / builtins / pipelines, here-strings, failing, not-found and unopenable-target commands, a background job, source, arithmetic, history) run in one real shell with a probe after every command: the shell descriptor table (read from /proc by a helper the shell starts) must stay equal to the initial one and every started program must have exactly descriptors 0,1,2. Every builtin (alias, unalias, minfd) with every sequence of up to two output redirections, and every captured command $(cmd redirections) / `cmd redirections` (alone and as last pipeline stage) with every sequence of up to two of ten redirections, each followed by a further command. Every soft RLIMIT_NOFILE value 4..40 x 23 pipeline templates (1..6 stages, with capture, with a here-string on every stage position, capture + here-string): clean non-zero failure when pipe creation fails, no hang, descriptor table unchanged, next command works.',
        note='-c mode (no history database / line editor descriptors); limits below 4 cannot be probed; for capture templates the failing pipeline is the inner one, so the line status is not required to be non-zero.',
        ref='DESIGN.md §4 C08'),
    'C09': dict(
        engine='E2 explicit-state BFS over the real shell (reference-model state dedup), real binary',
        technique='explicit-state model checking: BFS over the finite state space of variables / exported flags / cwd / previous dir with every operation executed on the real binary from every distinct state (thorough: to the fixpoint), compared with a reference model after every step',
        text='27 operations (assignment with blank / empty / = and : values and values holding braces / substitutions, export, unset, prefix assignment on a command and on the first stage of a pipeline, read into one, two and three names with enough / too few words and runs of blanks, cd absolute / relative / .. / through a symlink / no argument / - / missing / non-directory) over names A and B and a generated directory tree are executed by the real binary from every distinct reference-model state: quick to depth 4, thorough to the fixpoint (588 states, 12.7 k transitions). After each operation a helper started by the shell records the "$A|$B|$PWD" expansion, its environment, its cwd; a relative redirection must land in the model cwd, a failed cd must return non-zero and change nothing, a prefix assignment must be seen by that command only. Every probe ends with `cd -` and checks where it leads, so that the previous directory the shell remembers is observed after every operation.',
        note='Names, values and tree are the bound; states are reached by replaying their shortest history; state abstraction = the reference-model state.',
        ref='DESIGN.md §4 C09'),
    'C10': dict(
        engine='E1 bounded-exhaustive input sweep (in-process plan) + real binary',
        technique='bounded-exhaustive enumeration of all words built from reference/literal segments x quote forms x variable environments, planned by the real code against a reference single-pass expander; watchdog for non-termination; conformance replay through the real binary',
        text='All words of 1..3 segments (thorough: 4, and 5 under the self/mutual/regex environments) over {a - $A ${A} $AB ${AB} $U ${U} $? $$}, unquoted / double-quoted / single-quoted, under nine variable environments (plain, blank, empty, reference to another variable, self-reference in both spellings, mutual reference, $1, regex-special) installed exported and shell-local, are planned by the real code; the argv must equal a reference single-pass expansion (double-quoted: exactly one argument; single-quoted: literal) and every case must terminate. Words of <= 2 segments are also executed by the real binary. Also: variables that were shell-local first and exported afterwards (stale local copy still stored), and words with the characters that decide where an unbraced name ends (_ digit . multi-byte, a lone $, %).',
        note='Names and values are the bound; word splitting of unquoted results is accepted either way (statement silent).',
        ref='DESIGN.md §4 C10'),
    'C11': dict(
        engine='E1 bounded-exhaustive enumeration of output texts x spellings x placements x contexts on the real binary',
        technique='bounded-exhaustive enumeration of all output texts of up to 2 atoms over a 14-atom alphabet x both spellings x placements x quoting contexts, executed by the real binary with a recording helper (exactly-once check) against the literal-splice reference',
        text='All output texts of up to 2 atoms over {x blank $1 ${x} $A backslash newline * {a,b} ) ( .+ `cmd` $(cmd)} (a substitution in the output must not run) plus trailing-newline variants are produced by a recording helper and substituted with $(...) and backquotes as whole word / at word start / middle / end, unquoted and double-quoted, as assignment value and as here-string operand; special inner commands: pipeline, builtin, function, failing, not found, syntactically invalid, nested, two substitutions in one word and line; the substituted word next to other words of every quoting kind (8 kinds before x 6 after: plain, single-quoted, double-quoted, escaped dollar, variable, another substitution), which must keep their value and position. The real binary must pass exactly head + output-without-trailing-newlines + tail (byte-exact, one argument in double quotes), run the inner command exactly once, show variables to it, give a diagnostic and an empty replacement for unusable inner commands, never hang, create no file.',
        note='Atoms and lengths are the bound; unquoted results compared only for outputs without leading/trailing blanks; two open known findings (a builtin as the whole inner command acts on the expanding shell: cd, exit).',
        ref='DESIGN.md §4 C11'),
    'C12': dict(
        engine='E1 bounded-exhaustive input sweep (in-process plan) + real binary',
        technique='bounded-exhaustive enumeration of all well-formed brace terms, ranges, tilde forms and directory populations x patterns, planned by the real code against reference expanders; conformance replay through the real binary',
        text='Every well-formed brace term over {a b { } ,} (groups without a comma count as literal text) up to length 8 (thorough 10; nesting <= 3, <= 4 alternatives, <= 3 groups) in four position templates (also next to quoted arguments), all pairs of short terms, all ranges {m..n[..s]} over -3..3 (-5..5) x six steps with and without surrounding text, tilde forms, and every population subset of {a ab b .h "a b" d/ d/e .k/ .k/e} x eleven patterns (incl. */e: a hidden directory is not matched by a * component) are planned by the real code and compared with reference brace / range / glob expanders (order, cartesian product, empty alternatives, inclusive sequences, sorted non-hidden matches or the pattern itself, quoted words untouched, words with blanks stay one argument). A subset is executed by the real binary. Also: ranges with bounds and steps at the ends of the 32-bit range.',
        note='Alphabet, length and population universe are the bound; empty words may be kept or dropped; ~name and patterns ending in / are outside the statement.',
        ref='DESIGN.md §4 C12'),
    'C13': dict(
        engine='E1 bounded-exhaustive input sweep (in-process plan, substitutions executed) + real binary',
        technique='exhaustive enumeration of payload x delivery x quoting x position combinations, planned and executed by the real code; oracle = template structure with the payload as argument text only',
        text='22 payloads containing every operator character alone and embedded are delivered through $V (exported and shell-local), ${V}, $(cmd), backquotes and a file name matched by *, unquoted and double-quoted, at six argument positions; the real planner must keep the template structure (no pipe, background job, extra command, redirection) and pass the payload as argument text (one argument inside double quotes). The same deliveries are executed by the real binary at two positions: helper runs once, in the foreground, no file appears. Also (differential against a neutral value): references glued to literal text in 8 word shapes (including a literal & inside the word), and whole / glued words next to a real `< file`, `<<< word` and as here-string operand.',
        note='Payload list is the bound; unquoted results may be split at blanks.',
        ref='DESIGN.md §4 C13'),
    'C14': dict(
        engine='E1 exhaustive AST enumeration + E3 choice-prefix DFS over scripted condition answers, real binary',
        technique='exhaustive enumeration of all abstract syntax trees up to a node bound, with a stateless choice-prefix DFS over every scripted condition answer (environment answers as choice points), executed by the real binary against a reference interpreter',
        text='All ASTs over {command, if with up to 3 conditional arms and optional else, for over 0..2 words, while, break, continue} with up to 4 (thorough 5: about 21 k trees) statement nodes and depth <= 3 are rendered in both spellings with two layouts; every condition is a helper whose answers are scripted and each dynamic evaluation is a choice point (all answer strings of up to 4 (6) answers that the run consumes, false beyond the prefix). The marker / condition-evaluation trace of the real binary must equal the reference interpreter (first true branch only, re-test before every iteration, loop variable binding, break/continue on the innermost loop). Negatives: every small tree with one block keyword line deleted must give a diagnostic and a non-zero status. Also: conditions written as `c || c` / `c && c` lists (trees of up to 3, thorough 4, nodes), and a rendering in which every command carries block keywords as ordinary arguments.',
        note='Tree size, answer-string length and word lists are the bound; conditions and commands are helpers.',
        ref='DESIGN.md §4 C14'),
    'C15': dict(
        engine='E1 bounded-exhaustive script generation on the real binary',
        technique='bounded-exhaustive enumeration of argument lists x reference forms x frames, function names x headers x arities, source chains, and all bodies of status-relevant lines up to a length, executed by the real binary against a reference model of frames, persistence and status propagation',
        text='All argument lists of length 0..2 (thorough 0..3) over {x, "a b", $, \'q\', empty; single arguments also a;b a|b >f a& backslash #c dquote backquote $(cmd)} x 11 reference forms ($0 $1 ${2} $3 $9 $@ "$@", glued and quoted forms) in a script frame and in a function frame; function names f, g-h, _k x both header spellings x arities 0..2 defined in the script or in a sourced file; source chains of depth 1..3 defining a variable, an alias, a function and changing directory; all bodies of up to 3 (4) lines over {succeeding command, failing command, exit 5, set -e, function call with status 4, source with status 2} at top level, inside an if body and inside the body of a for over two words, each followed by a further command. The real binary must show the reference frames, persistence, record sequence and process exit status. Argument values also a;b a|b >f a& backslash #c (single arguments; thorough all lists); the same references inside the condition line of if / while.',
        note='Unquoted references may be split at blanks; functions are called after their definition.',
        ref='DESIGN.md §4 C15'),
    'C16': dict(
        engine='E1 bounded-exhaustive input sweep (in-process, differential between entry paths) + real binary through four entry points',
        technique='bounded-exhaustive enumeration of all lines over a 14-symbol alphabet with a differential oracle between the -c path and the script path of the real code; entry-point replay of bounded line sets through the real binary',
        text='For every complete line up to length 4 (thorough 6) over {blank a quote dquote backslash | ; & > $ * ( ) {} the plans of the -c/prompt path and of the script/function/source path (after the positional-parameter pass) must be identical: list structure, argv, redirections, assignments, background flag. Bounded line sets from C01, C03, C04 and C10-C12 (about 240 lines, thorough about 1300) are run by the real binary through -c, a script file, a function body and a sourced file and compared with the -c run on helper records, created files, output and exit status. Line sets also: comment-like text (# after a blank / tab inside quotes, escaped, real comments), runs of blanks that are data, an escaped blank at the end of the line, escaped $ / | as the last word, !! inside single quotes (prompt sessions are primed with a previous command).',
        note='Lines without positional parameters and newlines; incomplete lines are skipped; the interactive prompt entry point is not driven by this check.',
        ref='DESIGN.md §4 C16'),
    'C17': dict(
        engine='E2 explicit-state BFS over the alias table on the real binary (differential oracle)',
        technique='explicit-state model checking of the alias table (49 states, every operation from every state, thorough: to the fixpoint) on the real binary with a differential oracle: a use must behave like the textually substituted line in a fresh alias-free shell',
        text='Two names (one with . and -) x six values (option, double-quoted blank, single-quoted word, self reference, reference to the other alias, pipeline): every define / redefine (both quote kinds) / unalias is executed from every table state (quick: BFS depth 2 reaching all 49 states; thorough: fixpoint); after each operation the uses at line start, after |, after ;, after && and as a non-first word are executed and must equal the substituted line run without aliases (records and status; self/mutual references must not loop), the `alias` listing fed back to a fresh shell must recreate the same table and the same behaviour, `alias NAME` prints one definition, `unalias NAME` removes exactly NAME. Uses also after ||, after ; without blank, with a redirection, and as head of a pipeline with a redirection.',
        note='Names and values are the bound; record order inside a pipeline and the order of the listing are not compared.',
        ref='DESIGN.md §4 C17'),
    'C18': dict(
        engine='E2 explicit histories of history operations across shell processes + E5 pty sessions, real binary',
        technique='exhaustive enumeration of all operation sequences up to a depth x process splits x directory names on the real binary with an independent sqlite reader, plus exhaustive typed-line sequences on a pseudo-terminal',
        text='All sequences of up to 2 (thorough 3) operations over history add (8 texts with quotes, percent, underscore, backslash, semicolon/comment, multi-byte), list, search (5 patterns), -p and delete, each in its own shell process on one database created by the shell itself (interactive start on a pty), in directories named plain / with a quote / with a percent sign; the rows read back with python sqlite3 must equal the reference list (byte-equal texts, submission order, delete removes exactly the named row) and no listing / search / add may report an error. Interactive: all sequences of up to 3 typed lines over {command, same with leading blank, other command, repeat} with HISTORY_DELETE_DUPS 0 and 1, also as seen by a later shell process. Also: `history add` without a time stamp (every ordered selection of 2..3 texts, listings in later processes), typed lines that match one another as LIKE patterns / differ only in case / contain quotes, backslash, multi-byte text, a list operator, a comment, and a typed `!!`.',
        note='Texts, patterns and directory names are the bound; add operations carry explicit increasing time stamps.',
        ref='DESIGN.md §4 C18'),
    'C19': dict(
        engine='E1 bounded-exhaustive input sweep (in-process) + real binary',
        technique='bounded-exhaustive enumeration of all expression trees / all strings over the arithmetic alphabet against an exact reference evaluator (differential oracle, no sampling)',
        text='All expression trees with up to 2 operators over 14 boundary operands and 3 operators over 6 (thorough: 3 over 10, 4 over 4) in four renderings, and every string up to length 5 (7) over the arithmetic alphabet, evaluated by the real calculator and compared with an exact i128/IEEE reference; small trees also through the real binary.',
        note='Operand set, operator count and string length are the bound; overflow/division by zero/negative exponents are unspecified by the statement and only checked for crash freedom.',
        ref='DESIGN.md §4 C19'),
    'C20': dict(
        engine='E5 pty session explorer on the real interactive binary (real line editor and completer) + E1 in-process bounded-exhaustive sweep of the real completion / planning functions, bound to the editor by conformance replay',
        technique='bounded-exhaustive enumeration of all file names up to a length over the special-character alphabet x quoting contexts, completed with TAB in the real interactive binary on a pseudo-terminal and read back through a recording helper; plus bounded-exhaustive enumeration of every name up to length 3 (thorough 4) in every context through the real word-start, path-completion, Enter-processing and planning functions composed in-process, the composition being validated by recomputing every pty verdict (conformance replay)',
        text='Every name of length 1 and 2 (thorough: also 3 in the unquoted context) over a 27-character alphabet of shell-special characters, and 40 structured names (backquote pair, $(x), ${x}, brace group, range, embedded quotes ...) in every context, preceded by a unique prefix, is created as a file (or as a directory for cd); the entry lives in the working directory, a sub-directory, a sub-directory with a blank in its name, under ~/ or under $VAR/; the line may hold an argument in front of the word or one more typed character of the name; the prefix is typed unquoted, after an open single quote and after an open double quote, TAB and Enter are pressed in the real interactive cicada on a pty: the helper must receive exactly the entry name (cd must enter exactly that directory). Candidate lists (TAB TAB) on a shared-prefix population must offer exactly the entries with the typed prefix, directories only after cd. Failures inside a batch are believed only when reproduced alone in a fresh session.',
        note='Single-candidate completion per prefix; completion end is detected by terminal quiescence (40 ms); names longer than the bound are outside. The in-process layer models only the editor glue (replace the word by the single candidate + suffix); it is used only if it agrees with the real editor on every recomputed verdict.',
        ref='DESIGN.md §4 C20'),
    'C07': dict(
        engine='E5 pty session explorer on the real interactive binary with a reference model of job state',
        technique='exhaustive enumeration of all action sequences enabled in a reference model up to a depth, plus explicit-state breadth-first search over the canonical states of that model (every transition out of every distinct state; thorough: to the fixpoint for the reduced alphabet), each path replayed on the real interactive binary under a pseudo-terminal with a controlled schedule (gated helpers, awaited conditions instead of sleeps), oracle evaluated after every action',
        text='All sequences of 4 actions over the reduced alphabet (984) and of 3 actions over the full alphabet (thorough: 4 over the full alphabet, 9.8 k sessions, and 5 over the reduced one) from {launch fg pipeline of 1/2 stages, launch bg pipeline, Ctrl-Z, Ctrl-C, fg <id>, bg <id>, external SIGSTOP / SIGCONT / SIGKILL of a member, release the gate (normal exit), jobs, empty line, not-found and failing command} with <= 2 jobs alive, and every transition out of every distinct reference-model state reachable within 6 actions of the reduced alphabet (537 states, 1.9 k transitions; thorough: fixpoint of the reduced alphabet, about 2.2 k states / 15 k transitions, and depth 6 of the full alphabet, 1.5 k states / 9.8 k transitions), are replayed from a fresh interactive shell on a pty; after every action the driver waits for the condition the model predicts: tcgetpgrp of the terminal = group of the running foreground job, else the shell group; every stage in the group of the first stage; members stopped / running / gone in /proc; the parsed `jobs` listing equals the model (ids, leaders, Stopped/Running), also at the end of every sequence. A third explicit-state layer (polls: one background two-stage pipeline, stop / continue / kill of either member, jobs) is explored to its fixpoint with model states that also distinguish what the shell was told at its last poll.',
        note='Signal delivery is serialised by the driver (simultaneous arrivals are C06); fg/bg always get an explicit id; each condition is awaited at most 5 s.',
        ref='DESIGN.md §4 C07'),
}

NOT_YET = 'check not built yet in this round (planned, see DESIGN.md §4)'


def main():
    props = [json.loads(l) for l in open(os.path.join(ROOT, 'properties.jsonl'))]
    try:
        hooks = subprocess.check_output(['git', '-C', '/repo', 'log', '--format=%h %s', '--grep=^verif hooks']).decode().split('\n')
        hooks = [h.split(' ')[0] for h in hooks if h.strip()]
    except Exception:
        hooks = []
    checks = []
    na = []
    na_reasons = json.load(open(os.path.join(ROOT, 'tools', 'not_applicable.json'))) if os.path.exists(os.path.join(ROOT, 'tools', 'not_applicable.json')) else {}
    for p in props:
        pid = p['id']
        c = CHECKS.get(pid)
        if c is None:
            na.append({'property_id': pid, 'reason': na_reasons.get(pid, NOT_YET)})
            continue
        checks.append({
            'property_id': pid,
            'quick_cmd': './check %s quick' % pid,
            'thorough_cmd': './check %s thorough' % pid,
            'evidence_file': '/verif/evidence/%s.json' % pid,
            'replay_cmd_template': './check %s --replay {path}' % pid,
            'engine': c['engine'],
            'level_claimed': {'category': 'model_checking', 'text': c['text'], 'design_ref': c['ref']},
            'level_note': c['note'],
            'technique': c['technique'],
        })
    m = {
        'version': 1,
        'setup_cmd': './check --setup',
        'hooks': {
            'guard': 'cargo feature cicada_verif',
            'enable': 'cargo build --features cicada_verif (harness: path dependency cicada = { path = "/repo", features = ["cicada_verif"] })',
            'baseline_off_cmd': 'cd /repo && cargo test --workspace --no-fail-fast --offline',
            'source_commits': hooks,
            'add_only': True,
        },
        'engines': [
            {'name': 'E1 sweep', 'path': 'harness/src/explore.rs', 'serves_properties': sorted(k for k in CHECKS),
             'kind_free_text': 'bounded-exhaustive enumeration of inputs run through the real code in forked workers with panic/hang/abort supervision'},
        ],
        'checks': checks,
        'not_applicable': na,
        'notes': 'All verdicts come from exhaustive enumeration of a stated bounded space against the real code; see DESIGN.md.',
    }
    with open(os.path.join(ROOT, 'MANIFEST.json'), 'w') as f:
        json.dump(m, f, indent=1)
    print('MANIFEST.json: %d checks, %d not_applicable' % (len(checks), len(na)))


if __name__ == '__main__':
    main()
