#!/bin/bash
# usage: tools/selftest_alt.sh [<seeded-id>...]   like selftest_seeded.sh, but through tools/try_alt.sh (scratch worktree, VC_ALT):
# /repo is not touched, so it can run next to other checks. Prints one line per change.
cd /verif || exit 2
ids="$@"; [ -z "$ids" ] && ids=$(ls seeded | grep -E "^C[0-9]+-[0-9]+$")
fail=0
for id in $ids; do
  prop=$(python3 -c "import json;print(json.load(open('seeded/$id/meta.json'))['property'])")
  if python3 -c "import json,sys;sys.exit(0 if json.load(open('seeded/$id/meta.json')).get('obsolete') else 1)"; then echo "$id: obsolete, skipped"; continue; fi
  out=$(timeout 3000 tools/try_alt.sh seeded/$id/patch.diff $prop 2>&1)
  if echo "$out" | grep -q "== $prop rc=1 violations=[1-9]"; then echo "$id: detected by $prop ($(echo "$out" | grep -o 'violations=[0-9]*' | head -1))"; else echo "$id: NOT detected by $prop :: $(echo "$out" | grep '==' | head -1)"; fail=1; fi
done
exit $fail
